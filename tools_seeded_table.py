#!/usr/bin/env python3
"""print the markdown table of seeded changes vs checks from seeded/*/meta.json and seeded/RESULTS.json"""
import json, os
S='/verif/seeded'
res=json.load(open(os.path.join(S,'RESULTS.json')))
print("| id | property | needs | caught by | violation classes reported |")
print("|---|---|---|---|---|")
for mid in sorted(d for d in os.listdir(S) if os.path.isdir(os.path.join(S,d))):
    meta=json.load(open(os.path.join(S,mid,'meta.json')))
    r=res.get(mid,{})
    cls=[]
    for p,c in (r.get('classes') or {}).items(): cls+=c[:3]
    by=", ".join(r.get('caught_by') or []) or ("**missed**" if r else "not run")
    print(f"| {mid} | {meta['property']} | {meta['needs'][:150]} | {by} | {', '.join('`'+c+'`' for c in cls[:3])} |")
