#!/usr/bin/env python3
"""Build libgmssl.a variants from /repo's current working tree and link gmsim
against them.  Everything is offline; build trees live in /verif/build/."""
import os, subprocess, sys, shutil, hashlib, glob

VERIF = os.path.dirname(os.path.abspath(__file__))
REPO = os.environ.get("GMSIM_REPO", "/repo")
BUILD = os.path.join(VERIF, "build")
SIM = os.path.join(VERIF, "sim")

ASAN_FLAGS = "-fsanitize=address,bounds,pointer-overflow,null,object-size -fno-sanitize-recover=all -fno-omit-frame-pointer -g"
VARIANTS = {
    # name: (cc, lib cflags, harness cflags, link flags, extra defines)
    "plain":   ("gcc",   "-g", "-O2 -g -Wno-format-truncation", "", "-DGMSIM_ARENA"),
    "asan":    ("gcc",   ASAN_FLAGS, "-O1 -Wno-format-truncation " + ASAN_FLAGS, ASAN_FLAGS, ""),
    "asan-if": ("gcc",   ASAN_FLAGS + " -finstrument-functions", "-O1 " + ASAN_FLAGS, ASAN_FLAGS, "-DGMSIM_HOOKED"),
    "tsan-if": ("clang", "-fsanitize=thread -finstrument-functions -g", "-O1 -g", "-fsanitize=thread", "-DGMSIM_HOOKED -DGMSIM_TSAN -DGMSIM_THREADS"),
    "msan":    ("clang", "-fsanitize=memory -fsanitize-memory-track-origins -fno-omit-frame-pointer -g",
                "-O1 -g -fsanitize=memory -fsanitize-memory-track-origins -fno-omit-frame-pointer", "-fsanitize=memory", "-DGMSIM_MSAN -DGMSIM_THREADS"),
}
WRAPS = ["send", "recv", "usleep", "time", "getentropy", "close", "socket", "connect", "gethostbyname",
         "ctime", "asctime", "localtime", "gmtime", "strtok", "rand", "srand",      # nonreent.c
         "signal", "sigaction", "setenv", "unsetenv", "putenv", "setlocale", "umask", "chdir",
         "sm2_sign_finish"]                                                         # creds.c: junk-signature prover

# harness sources; files listed in NOSAN are compiled without sanitizer flags in every variant
SOURCES = ["core.c", "baton.c", "wraps.c", "nonreent.c", "net.c", "plan.c", "creds.c", "tlsnode.c", "mon.c",
           "scn_common.c", "scn_honest.c", "main.c"]
OPTIONAL = {
    "scn_mitm.c": "-DHAVE_SCN_MITM", "scn_auth.c": "-DHAVE_SCN_AUTH", "scn_entropy.c": "-DHAVE_SCN_ENTROPY",
    "scn_byz.c": "-DHAVE_SCN_BYZ", "scn_http.c": "-DHAVE_SCN_HTTP", "scn_threads.c": "-DHAVE_SCN_THREADS", "scn_ops.c": "-DHAVE_SCN_OPS",
}
NOSAN = {"baton.c"}
NOSAN_TSAN = {"baton.c", "core.c", "net.c", "wraps.c"}


def run(cmd, **kw):
    r = subprocess.run(cmd, shell=isinstance(cmd, str), stdout=subprocess.PIPE, stderr=subprocess.STDOUT, text=True, **kw)
    return r.returncode, r.stdout


def build_lib(variant, quiet=True):
    cc, libflags, _, _, _ = VARIANTS[variant]
    d = os.path.join(BUILD, variant, "lib")
    os.makedirs(d, exist_ok=True)
    libflags = libflags + " -Dmalloc=gmsim_lib_malloc"      # allocator seam: the library's own malloc calls (wraps.c)
    ccpath = cc
    if variant == "msan":
        # the project's CMakeLists appends -O3, and optimised code lets MSan reason poisoned bits away (a switch on a
        # poisoned byte became a range check it could "prove" either way): a wrapper appends -O0 after everything else
        ccpath = os.path.join(BUILD, variant, "cc-O0")
        with open(ccpath, "w") as f:
            f.write('#!/bin/sh\nexec %s "$@" -O1 -fno-jump-tables -mllvm -msan-handle-icmp=0\n' % cc)
        os.chmod(ccpath, 0o755)
        libflags = libflags + " -DGMSIM_LIB_O1_STRICT_ICMP"
    stamp = os.path.join(d, "flags.stamp")
    if os.path.exists(os.path.join(d, "build.ninja")) and (not os.path.exists(stamp) or open(stamp).read() != libflags):
        os.remove(os.path.join(d, "build.ninja"))
        if os.path.exists(os.path.join(d, "CMakeCache.txt")):
            os.remove(os.path.join(d, "CMakeCache.txt"))
    if not os.path.exists(os.path.join(d, "build.ninja")):
        cmd = ["cmake", "-G", "Ninja", "-S", REPO, "-B", d, "-DBUILD_SHARED_LIBS=OFF",
               "-DCMAKE_BUILD_TYPE=", "-DCMAKE_C_COMPILER=" + ccpath, "-DCMAKE_C_FLAGS=" + libflags + " -Wno-error -w"]
        rc, out = run(cmd)
        if rc != 0:
            sys.stderr.write(out)
            raise SystemExit("cmake configure failed for " + variant)
        open(stamp, "w").write(libflags)
    rc, out = run(["cmake", "--build", d, "--target", "gmssl", "-j", "16"])
    if rc != 0:
        sys.stderr.write(out[-6000:])
        raise SystemExit("library build failed for " + variant)
    lib = os.path.join(d, "bin", "libgmssl.a")
    if not os.path.exists(lib):
        raise SystemExit("libgmssl.a not produced for " + variant)
    return lib


def lib_defines(variant):
    """the -D flags libgmssl itself was compiled with: struct layouts in the public headers depend on them"""
    nin = os.path.join(BUILD, variant, "lib", "build.ninja")
    want = False
    for line in open(nin, errors="replace"):
        if line.startswith("build CMakeFiles/gmssl.dir/src/"):
            want = True
        elif want and line.strip().startswith("DEFINES ="):
            return line.split("=", 1)[1].strip()
        elif want and line.startswith("build "):
            want = False
    return ""


def build_harness(variant, lib):
    cc, _, hflags, lflags, defs = VARIANTS[variant]
    defs = defs + " " + lib_defines(variant)
    d = os.path.join(BUILD, variant, "obj")
    os.makedirs(d, exist_ok=True)
    srcs = list(SOURCES)
    for f, define in OPTIONAL.items():
        if os.path.exists(os.path.join(SIM, f)):
            srcs.append(f)
            defs += " " + define
    # the harness sees the library's structs (TLS_CONNECT, TLS_CTX, SM2_SIGN_CTX ...) through its public headers
    hdrs = glob.glob(os.path.join(SIM, "*.h")) + glob.glob(os.path.join(SIM, "*.inc")) + glob.glob(os.path.join(REPO, "include", "gmssl", "*.h"))
    hstamp = max(os.path.getmtime(h) for h in hdrs)
    objs = []
    procs = []
    for s in srcs:
        src = os.path.join(SIM, s)
        obj = os.path.join(d, s.replace(".c", ".o"))
        objs.append(obj)
        nosan = s in NOSAN or (variant == "tsan-if" and s in NOSAN_TSAN)
        flags = "-O2 -g -fno-builtin" if nosan else hflags
        if s == "nonreent.c" and variant == "tsan-if":
            flags = "-O1 -g -fsanitize=thread"      # the one harness file TSan must see (models libc's static buffers)
        key = hashlib.sha1((flags + defs + cc).encode()).hexdigest()[:12]
        stamp = obj + ".flags"
        fresh = (os.path.exists(obj) and os.path.getmtime(obj) > os.path.getmtime(src)
                 and os.path.getmtime(obj) > hstamp and os.path.exists(stamp) and open(stamp).read() == key)
        if fresh:
            continue
        cmd = f"{cc} -std=gnu11 -Wall -Wno-unused-function {flags} {defs} -I{REPO}/include -I{SIM} -c {src} -o {obj}"
        procs.append((subprocess.Popen(cmd, shell=True, stdout=subprocess.PIPE, stderr=subprocess.STDOUT, text=True), s, stamp, key))
    for p, s, stamp, key in procs:
        out, _ = p.communicate()
        if p.returncode != 0:
            sys.stderr.write(out)
            raise SystemExit(f"compile failed: {s} ({variant})")
        if out.strip():
            sys.stderr.write(out)
        open(stamp, "w").write(key)
    exe = os.path.join(BUILD, variant, "gmsim")
    wraps = list(WRAPS) + (["malloc", "free", "calloc", "realloc"] if "GMSIM_ARENA" in defs else [])
    wrap = ",".join("--wrap=" + w for w in wraps)
    need_link = (not os.path.exists(exe) or any(os.path.getmtime(o) > os.path.getmtime(exe) for o in objs)
                 or os.path.getmtime(lib) > os.path.getmtime(exe))
    if need_link:
        cmd = f"{cc} {lflags} -o {exe} {' '.join(objs)} {lib} -Wl,{wrap} -lpthread -ldl -lm"
        rc, out = run(cmd)
        if rc != 0:
            sys.stderr.write(out)
            raise SystemExit("link failed for " + variant)
    return exe


def build(variant):
    lib = build_lib(variant)
    return build_harness(variant, lib)


if __name__ == "__main__":
    vs = sys.argv[1:] or ["plain"]
    for v in vs:
        print(build(v))
