/* C20 — independent objects can be used concurrently with sequential
 * results (DESIGN 4.8).  2..16 tasks, each with private objects, a private
 * entropy stream and clock, run mixed scripts; library code is preempted at
 * function entries (-finstrument-functions hook) by the seeded scheduler.
 * Half 1: every task's result log equals the log of the same scripts run
 * without preemption.  Half 2 (tsan-if build): tasks are real threads handed
 * a futex baton that ThreadSanitizer cannot see, so any two conflicting
 * accesses to library-internal state are reported although serialised. */
#define _GNU_SOURCE
#include "gmsim.h"
#include <gmssl/sm9.h>
#include <gmssl/zuc.h>
#include <gmssl/cms.h>
#include <gmssl/oid.h>
#include <gmssl/hmac.h>
#include <gmssl/digest.h>
#include <gmssl/x509_ext.h>
#include <gmssl/x509_crl.h>
#include <gmssl/base64.h>
#include <gmssl/hex.h>
#include <gmssl/hkdf.h>

int tls13_gcm_encrypt(const BLOCK_CIPHER_KEY *key, const uint8_t iv[12], const uint8_t seq_num[8], int record_type,
	const uint8_t *in, size_t inlen, size_t padding_len, uint8_t *out, size_t *outlen);

/* preemption control lives in wraps.c */
extern int g_preempt_on;
extern int64_t g_preempt_mean;
extern uint64_t g_hook_calls, g_hook_yields;

#define MAX_WT 16
typedef struct Worker {
	int id, node;
	uint64_t script_seed;
	int nops;
	uint64_t digest;
	int ops_done;
	int failed; char failed_what[64];
	/* connection tasks */
	int conn_side; Endpoint *ep;
	uint8_t cmsbuf[6000];
} Worker;
static Worker g_w[MAX_WT];
static const Plan *g_tp;

static SM9_ENC_MASTER_KEY g_t_sm9em[3]; static SM9_ENC_KEY g_t_sm9ek[3];
static SM9_SIGN_MASTER_KEY g_t_sm9m[3]; static SM9_SIGN_KEY g_t_sm9k[3];   /* several master keys: tasks must not share key-dependent state */
static int g_t_ready;

static void threads_setup(void)
{
	if (g_t_ready) return;
	sim_ambient_entropy_seed(0x7123ad5);
	for (int i = 0; i < 3; i++)
		if (sm9_sign_master_key_generate(&g_t_sm9m[i]) != 1 || sm9_sign_master_key_extract_key(&g_t_sm9m[i], "carol", 5, &g_t_sm9k[i]) != 1
		    || sm9_enc_master_key_generate(&g_t_sm9em[i]) != 1 || sm9_enc_master_key_extract_key(&g_t_sm9em[i], "dave", 4, &g_t_sm9ek[i]) != 1) die("threads setup");
	(void)creds_get(1, 0); (void)creds_get(2, 0); (void)creds_get(1, 1);
	(void)creds_get_eku(1, 0); (void)creds_get_eku(2, 0); (void)creds_get_eku(1, 1);
	g_t_ready = 1;
}

#define D(w, p, n) ((w)->digest = hash_bytes((w)->digest, (p), (n)))
#define DI(w, v) do { int64_t _v = (v); D(w, &_v, 8); } while (0)
#define DI1(w, v) do { int64_t _v = (v); D(w, &_v, 8); if (_v != 1) { wfail(w, #v); goto next_op; } } while (0)   /* must succeed; what follows would use its output */
static void wfail(Worker *w, const char *what) { if (!w->failed) { w->failed = 1; snprintf(w->failed_what, sizeof(w->failed_what), "%s", what); } }

static void script_task(void *arg)
{
	Worker *w = arg;
	Rng r;
	rng_seed(&r, w->script_seed, 0x5c1);
	uint8_t buf[2048], out[2304], key[32], iv[16];
	w->digest = 0x7a5c;
	for (int i = 0; i < w->nops; i++) {
		int op = (int)rng_below(&r, 26);
		if (g_tp->afail_at >= 0 && rng_chance(&r, 1, 2)) op = 12;      /* the operation that allocates */
		if (g_tp->op > 0 && rng_chance(&r, 3, 4)) op = (int)(g_tp->op - 1) % 26;   /* storm: every script task mostly runs the same kind of operation */
		size_t n = 8 + rng_below(&r, 1493);      /* at least 8: several operations split the input in halves or thirds, and a zero-length update is an error */
		rng_bytes(&r, buf, n); rng_bytes(&r, key, 32); rng_bytes(&r, iv, 16);
		DI(w, op);
		switch (op) {
		case 0: { SM3_CTX c; uint8_t d[32]; sm3_init(&c); size_t h = n / 2; sm3_update(&c, buf, h); sm3_update(&c, buf + h, n - h); sm3_finish(&c, d); D(w, d, 32); break; }
		case 1: { SM3_HMAC_CTX c; uint8_t d[32]; sm3_hmac_init(&c, key, 32); sm3_hmac_update(&c, buf, n); sm3_hmac_finish(&c, d); D(w, d, 32); break; }
		case 2: { DIGEST_CTX c; uint8_t d[64]; size_t dl = 0;
			const DIGEST *dg = digest_from_name(rng_chance(&r, 1, 2) ? "sha256" : "sm3"); if (!dg) dg = DIGEST_sm3();
			DI(w, digest_init(&c, dg)); DI(w, digest_update(&c, buf, n)); DI(w, digest_finish(&c, d, &dl)); D(w, d, dl); break; }
		case 3: { SM4_KEY k; size_t ol = 0; sm4_set_encrypt_key(&k, key);
			DI(w, sm4_cbc_padding_encrypt(&k, iv, buf, n, out, &ol)); D(w, out, ol);
			SM4_KEY dk; uint8_t back[2304]; size_t bl = 0; sm4_set_decrypt_key(&dk, key);
			DI(w, sm4_cbc_padding_decrypt(&dk, iv, out, ol, back, &bl)); if (bl != n || memcmp(back, buf, n)) wfail(w, "sm4-cbc round trip"); break; }
		case 4: { SM4_KEY k; uint8_t ctr[16], tag[16], back[2048]; memcpy(ctr, iv, 16); sm4_set_encrypt_key(&k, key);
			sm4_ctr_encrypt(&k, ctr, buf, n, out); D(w, out, n);
			DI(w, sm4_gcm_encrypt(&k, iv, 12, key, 13, buf, n, out, 16, tag)); D(w, out, n); D(w, tag, 16);
			DI(w, sm4_gcm_decrypt(&k, iv, 12, key, 13, out, n, tag, 16, back)); if (memcmp(back, buf, n)) wfail(w, "sm4-gcm round trip"); break; }
		case 5: { ZUC_STATE z; zuc_init(&z, key, iv); zuc_encrypt(&z, buf, n, out); D(w, out, n); break; }
		case 6: { SM2_KEY k; uint8_t pub[64]; DI1(w, sm2_key_generate(&k)); sm2_z256_point_to_bytes(&k.public_key, pub); D(w, pub, 64);
			uint8_t sig[SM2_MAX_SIGNATURE_SIZE]; size_t sl = 0;
			DI(w, sm2_sign(&k, buf, sig, &sl)); D(w, sig, sl); DI(w, sm2_verify(&k, buf, sig, sl));
			sig[sl / 2] ^= 1; DI(w, sm2_verify(&k, buf, sig, sl)); break; }
		case 7: { SM2_KEY k; DI1(w, sm2_key_generate(&k));
			SM2_SIGN_CTX sc; SM2_VERIFY_CTX vc; uint8_t sig[SM2_MAX_SIGNATURE_SIZE]; size_t sl = 0;
			DI1(w, sm2_sign_init(&sc, &k, SM2_DEFAULT_ID, SM2_DEFAULT_ID_LENGTH)); DI(w, sm2_sign_update(&sc, buf, n)); DI(w, sm2_sign_finish(&sc, sig, &sl)); D(w, sig, sl);
			DI1(w, sm2_verify_init(&vc, &k, SM2_DEFAULT_ID, SM2_DEFAULT_ID_LENGTH)); DI(w, sm2_verify_update(&vc, buf, n)); DI(w, sm2_verify_finish(&vc, sig, sl)); break; }
		case 8: { SM2_KEY k; uint8_t ct[SM2_MAX_CIPHERTEXT_SIZE], pt[256]; size_t cl = 0, pl = 0, m = n % 200 + 1;
			DI1(w, sm2_key_generate(&k)); DI(w, sm2_encrypt(&k, buf, m, ct, &cl)); D(w, ct, cl);
			DI(w, sm2_decrypt(&k, ct, cl, pt, &pl)); if (pl != m || memcmp(pt, buf, m)) wfail(w, "sm2 enc round trip"); break; }
		case 9: { SM2_KEY k; uint8_t der[512], *p = der; const uint8_t *cp = der; size_t dl = 0; SM2_KEY k2;
			DI1(w, sm2_key_generate(&k)); DI(w, sm2_private_key_info_to_der(&k, &p, &dl)); D(w, der, dl);
			const uint8_t *attrs; size_t al; DI(w, sm2_private_key_info_from_der(&k2, &attrs, &al, &cp, &dl));
			if (memcmp(&k, &k2, sizeof(k))) wfail(w, "key der round trip"); break; }
		case 10: { /* X.509: issue, parse, verify */
			SM2_KEY ck, lk; Ident ca, leaf; int vr;
			DI1(w, sm2_key_generate(&ck)); DI1(w, sm2_key_generate(&lk));
			/* validity periods that start and end in different (leap and non-leap) years per task */
			int64_t nb = SIM_T0 - 10 - (int64_t)(w->id % 4) * 400 * 86400LL, na = SIM_T0 + 86400 + (int64_t)(w->id % 3) * 500 * 86400LL;
			CertSpec cs = { "T CA", 1, -1, X509_KU_KEY_CERT_SIGN, nb, na };
			CertSpec ls = { "t.leaf", 0, -1, X509_KU_DIGITAL_SIGNATURE, nb, na };
			DI1(w, creds_issue(&cs, &ck, NULL, &ca)); DI1(w, creds_issue(&ls, &lk, &ca, &leaf)); D(w, leaf.cert, leaf.certlen);
			DI(w, x509_certs_verify(leaf.cert, leaf.certlen, X509_cert_chain_server, ca.cert, ca.certlen, 4, &vr)); break; }
		case 11: { /* CMS sign / verify */
			uint8_t *cms = w->cmsbuf;
			const CredSet *cr = creds_get(1, 0); SM2_KEY sk = cr->cli_sign.key; size_t cl = 0;
			CMS_CERTS_AND_KEY s = { (uint8_t *)cr->cli_sign.cert, cr->cli_sign.certlen, &sk };
			DI(w, cms_sign(cms, &cl, &s, 1, OID_cms_data, buf, n % 300 + 1, NULL, 0)); D(w, cms, cl);
			int ct; const uint8_t *c, *certs, *crls, *si; size_t a1, a2, a3, a4;
			DI(w, cms_verify(cms, cl, NULL, 0, NULL, 0, &ct, &c, &a1, &certs, &a2, &crls, &a3, &si, &a4)); break; }
		case 12: { /* TLS record protection both kinds */
			SM3_HMAC_CTX h; SM4_KEY ek, dk; uint8_t seq[8] = { 0, 0, 0, 0, 0, 0, 0, (uint8_t)i }, hdr[5] = { 23, 3, 3, (uint8_t)(n >> 8), (uint8_t)n };
			size_t ol = 0, dl = 0; uint8_t dec[2048];
			sm3_hmac_init(&h, key, 32); sm4_set_encrypt_key(&ek, key); sm4_set_decrypt_key(&dk, key);
			DI(w, tls_cbc_encrypt(&h, &ek, seq, hdr, buf, n, out, &ol)); D(w, out, ol);
			uint8_t eh[5] = { 23, 3, 3, (uint8_t)(ol >> 8), (uint8_t)ol };
			DI(w, tls_cbc_decrypt(&h, &dk, seq, eh, out, ol, dec, &dl)); if (dl != n || memcmp(dec, buf, n)) wfail(w, "cbc record round trip");
			BLOCK_CIPHER_KEY bk; int rt = 0; block_cipher_set_encrypt_key(&bk, BLOCK_CIPHER_sm4(), key);
			DI(w, tls13_gcm_encrypt(&bk, iv, seq, 23, buf, n, i % 7, out, &ol)); D(w, out, ol);
			DI(w, tls13_gcm_decrypt(&bk, iv, seq, out, ol, &rt, dec, &dl)); if (dl != n || memcmp(dec, buf, n)) wfail(w, "gcm record round trip"); break; }
		case 13: if (rng_chance(&r, 1, 3)) { /* SM9 (slow): sign / verify */
			SM9_SIGN_CTX sc; uint8_t sig[SM9_SIGNATURE_SIZE]; size_t sl = 0;
			DI(w, sm9_sign_init(&sc)); DI(w, sm9_sign_update(&sc, buf, n)); DI(w, sm9_sign_finish(&sc, &g_t_sm9k[w->id % 3], sig, &sl)); D(w, sig, sl);
			SM9_SIGN_CTX vc; DI(w, sm9_verify_init(&vc)); DI(w, sm9_verify_update(&vc, buf, n)); DI(w, sm9_verify_finish(&vc, sig, sl, &g_t_sm9m[w->id % 3], "carol", 5)); }
			break;
		case 14: { uint8_t okm[64]; DI(w, sm3_pbkdf2((char *)buf, 8, key, 16, 64 + (int)(n % 64), 40, okm)); D(w, okm, 40); break; }
		case 16: { /* base64 and hex codecs */
			BASE64_CTX bc; uint8_t b64[2304], back[2048]; int l1 = 0, l2 = 0, l3 = 0, l4 = 0; size_t m = n % 1200 + 1;
			base64_encode_init(&bc); DI1(w, base64_encode_update(&bc, buf, (int)m, b64, &l1)); base64_encode_finish(&bc, b64 + l1, &l2); D(w, b64, (size_t)(l1 + l2));
			base64_decode_init(&bc); { int rv = base64_decode_update(&bc, b64, l1 + l2, back, &l3); DI(w, rv); if (rv < 0) { wfail(w, "base64_decode_update"); goto next_op; } } DI1(w, base64_decode_finish(&bc, back + l3, &l4));
			if ((size_t)(l3 + l4) != m || memcmp(back, buf, m)) wfail(w, "base64 round trip");
			char hx[129]; size_t hl = 0; for (int k = 0; k < 64; k++) snprintf(hx + 2 * k, 3, "%02x", buf[k]);
			DI1(w, hex_to_bytes(hx, 128, back, &hl)); if (hl != 64 || memcmp(back, buf, 64)) wfail(w, "hex round trip"); break; }
		case 17: { /* KDFs */
			SM3_KDF_CTX kc; uint8_t okm[96], prk[32];
			sm3_kdf_init(&kc, 80); sm3_kdf_update(&kc, buf, n); sm3_kdf_finish(&kc, okm); D(w, okm, 80);
			DI1(w, sm3_hkdf_extract(key, 32, buf, n, prk)); D(w, prk, 32);
			DI1(w, sm3_hkdf_expand(prk, iv, 16, 96, okm)); D(w, okm, 96); break; }
		case 18: { /* SM4 streaming contexts and the remaining modes */
			SM4_CBC_CTX cc; SM4_CTR_CTX tc; size_t o1 = 0, o2 = 0, h = n / 3; uint8_t back[2304]; size_t b1 = 0, b2 = 0;
			DI1(w, sm4_cbc_encrypt_init(&cc, key, iv)); DI1(w, sm4_cbc_encrypt_update(&cc, buf, h, out, &o1)); { size_t o = 0; DI1(w, sm4_cbc_encrypt_update(&cc, buf + h, n - h, out + o1, &o)); o1 += o; }
			DI1(w, sm4_cbc_encrypt_finish(&cc, out + o1, &o2)); D(w, out, o1 + o2);
			DI1(w, sm4_cbc_decrypt_init(&cc, key, iv)); DI1(w, sm4_cbc_decrypt_update(&cc, out, o1 + o2, back, &b1)); DI1(w, sm4_cbc_decrypt_finish(&cc, back + b1, &b2));
			if (b1 + b2 != n || memcmp(back, buf, n)) wfail(w, "sm4-cbc ctx round trip");
			DI1(w, sm4_ctr_encrypt_init(&tc, key, iv)); DI1(w, sm4_ctr_encrypt_update(&tc, buf, n, out, &o1)); DI1(w, sm4_ctr_encrypt_finish(&tc, out + o1, &o2)); D(w, out, o1 + o2);
#ifdef ENABLE_SM4_OFB
			{ SM4_KEY k; uint8_t v[16]; memcpy(v, iv, 16); sm4_set_encrypt_key(&k, key); sm4_ofb_encrypt(&k, v, buf, n, out); D(w, out, n); }
#endif
#ifdef ENABLE_SM4_CFB
			{ SM4_KEY k; uint8_t v[16]; memcpy(v, iv, 16); sm4_set_encrypt_key(&k, key); sm4_cfb_encrypt(&k, SM4_CFB_128, v, buf, n, out); D(w, out, n);
			  memcpy(v, iv, 16); sm4_cfb_decrypt(&k, SM4_CFB_128, v, out, n, back); if (memcmp(back, buf, n)) wfail(w, "sm4-cfb round trip"); }
#endif
#ifdef ENABLE_SM4_CCM
			{ SM4_KEY k; uint8_t tag[16]; sm4_set_encrypt_key(&k, key);
			  DI1(w, sm4_ccm_encrypt(&k, iv, 12, key, 9, buf, n, out, 16, tag)); D(w, out, n); D(w, tag, 16);
			  DI1(w, sm4_ccm_decrypt(&k, iv, 12, key, 9, out, n, tag, 16, back)); if (memcmp(back, buf, n)) wfail(w, "sm4-ccm round trip"); }
#endif
			break; }
		case 19: { /* the other digests behind the DIGEST interface, HMAC over them */
			static const char *names[] = { "sha1", "sha224", "sha256", "sha384", "sha512", "sm3" };
			const DIGEST *dg = digest_from_name(names[rng_below(&r, 6)]); if (!dg) dg = DIGEST_sm3();
			DIGEST_CTX c; uint8_t d[64]; size_t dl = 0; size_t h = n / 2;
			DI1(w, digest_init(&c, dg)); DI1(w, digest_update(&c, buf, h)); DI1(w, digest_update(&c, buf + h, n - h)); DI1(w, digest_finish(&c, d, &dl)); D(w, d, dl);
			HMAC_CTX hc; DI1(w, hmac_init(&hc, dg, key, 32)); DI1(w, hmac_update(&hc, buf, n)); DI1(w, hmac_finish(&hc, d, &dl)); D(w, d, dl); break; }
		case 20: if (rng_chance(&r, 1, 3)) { /* SM9 (slow): encrypt / decrypt under this task's master key */
			uint8_t ct[512], pt[128]; size_t cl = 0, pl = 0, m = n % 100 + 1;
			DI1(w, sm9_encrypt(&g_t_sm9em[w->id % 3], "dave", 4, buf, m, ct, &cl)); D(w, ct, cl);
			DI1(w, sm9_decrypt(&g_t_sm9ek[w->id % 3], "dave", 4, ct, cl, pt, &pl)); if (pl != m || memcmp(pt, buf, m)) wfail(w, "sm9 enc round trip"); }
			break;
		case 21: { /* CRL: sign, verify, check against this task's clock */
			SM2_KEY ck; uint8_t name[256]; size_t namelen; uint8_t crl[1024], *p = crl; size_t len = 0;
			DI1(w, sm2_key_generate(&ck)); creds_make_name("T CRL CA", name, &namelen);
			int64_t tu = SIM_T0 - 5 - (int64_t)(w->id % 5) * 300 * 86400LL;
			DI1(w, x509_crl_sign_to_der(1, OID_sm2sign_with_sm3, name, namelen, tu, tu + 86400 * 900LL, NULL, 0, NULL, 0,
				&ck, SM2_DEFAULT_ID, SM2_DEFAULT_ID_LENGTH, &p, &len)); D(w, crl, len);
			DI1(w, x509_signed_verify(crl, len, &ck, SM2_DEFAULT_ID, SM2_DEFAULT_ID_LENGTH)); DI(w, x509_crl_check(crl, len, (time_t)SIM_T0)); break; }
		case 22: { /* printing into a caller-designated stream: a certificate of this task (its own validity period) and a shared chain */
			const CredSet *cr = creds_get(2, 0); char *txt = NULL; size_t tl = 0;
			SM2_KEY pk; Ident own;
			int64_t nb = SIM_T0 - 3600 - (int64_t)w->id * 86400LL * 31, na = SIM_T0 + 86400 + (int64_t)w->id * 86400LL * 45;
			CertSpec ps = { "print.sim", 0, -1, X509_KU_DIGITAL_SIGNATURE, nb, na };
			DI1(w, sm2_key_generate(&pk)); DI1(w, creds_issue(&ps, &pk, NULL, &own));
			FILE *mf = open_memstream(&txt, &tl);
			if (mf) {
				DI1(w, x509_cert_print(mf, 0, 0, "Certificate", own.cert, own.certlen));
				const uint8_t *c = cr->srv_chain; size_t cl = cr->srv_chain_len; const uint8_t *cert; size_t certlen;
				while (cl && x509_cert_from_der(&cert, &certlen, &c, &cl) == 1) DI1(w, x509_cert_print(mf, 0, 0, "Certificate", cert, certlen));
				fclose(mf); D(w, txt, tl); free(txt);
			}
			break; }
		case 23: { /* key PEM through a caller-designated stream, password-protected */
			SM2_KEY k, k2; char *txt = NULL; size_t tl = 0;
			DI1(w, sm2_key_generate(&k));
			FILE *mf = open_memstream(&txt, &tl);
			if (mf) {
				DI1(w, sm2_private_key_info_encrypt_to_pem(&k, "pw-threads", mf)); fclose(mf); DI(w, (int64_t)tl);
				FILE *rf = fmemopen(txt, tl, "r");
				if (rf) { DI1(w, sm2_private_key_info_decrypt_from_pem(&k2, "pw-threads", rf)); fclose(rf); if (memcmp(&k, &k2, sizeof(k))) wfail(w, "encrypted pem round trip"); }
				free(txt);
			}
			break; }
		case 24: { /* printing a ClientHello of another TLS stack: cipher suites and extensions this library has no name for */
			uint8_t rec[256]; size_t k = 0; char *txt = NULL; size_t tl = 0;
			uint16_t base = (uint16_t)(0x0a0a + 0x1010 * (w->id % 14));           /* GREASE-like, a different set per task */
			rec[k++] = 22; rec[k++] = 3; rec[k++] = 3; k += 2;                      /* record header, length below */
			rec[k++] = 1; k += 3;                                                   /* ClientHello, length below */
			rec[k++] = 3; rec[k++] = 3; memcpy(rec + k, buf, 32); k += 32; rec[k++] = 0;
			rec[k++] = 0; rec[k++] = 6; rec[k++] = (uint8_t)(base >> 8); rec[k++] = (uint8_t)base; rec[k++] = 0xe0; rec[k++] = 0x13; rec[k++] = (uint8_t)(base >> 8); rec[k++] = (uint8_t)(base + 1);
			rec[k++] = 1; rec[k++] = 0;
			rec[k++] = 0; rec[k++] = 10;                                            /* two extensions of unknown type */
			rec[k++] = (uint8_t)(base >> 8); rec[k++] = (uint8_t)base; rec[k++] = 0; rec[k++] = 1; rec[k++] = 0;
			rec[k++] = (uint8_t)(base >> 8); rec[k++] = (uint8_t)(base + 2); rec[k++] = 0; rec[k++] = 1; rec[k++] = 7;
			rec[3] = (uint8_t)((k - 5) >> 8); rec[4] = (uint8_t)(k - 5); rec[6] = 0; rec[7] = (uint8_t)((k - 9) >> 8); rec[8] = (uint8_t)(k - 9);
			uint8_t sh[96]; size_t j = 0;
			sh[j++] = 22; sh[j++] = 3; sh[j++] = 3; j += 2; sh[j++] = 2; j += 3;          /* ServerHello */
			sh[j++] = 3; sh[j++] = 3; memcpy(sh + j, buf + 32, 32); j += 32; sh[j++] = 0;
			sh[j++] = (w->id & 1) ? 0xe0 : 0xe0; sh[j++] = (w->id & 1) ? 0x11 : 0x13; sh[j++] = 0;    /* ECDHE-SM4-CBC-SM3 for odd tasks, ECC-SM4-CBC-SM3 for even ones */
			sh[3] = (uint8_t)((j - 5) >> 8); sh[4] = (uint8_t)(j - 5); sh[6] = 0; sh[7] = (uint8_t)((j - 9) >> 8); sh[8] = (uint8_t)(j - 9);
			FILE *mf = open_memstream(&txt, &tl);
			if (mf) { DI(w, tls_record_print(mf, rec, k, 0, 0)); DI(w, tls_record_print(mf, sh, j, 0, 0)); fclose(mf); D(w, txt, tl); free(txt); }
			break; }
		case 25: { /* a context of this task's own, configured through the public setters (each task its own verify depth) */
			const CredSet *cr = creds_get(2, 0); TLS_CTX cx;
			int server = (int)rng_below(&r, 2);
			DI1(w, tls_ctx_init(&cx, TLS_protocol_tls12, server ? TLS_server_mode : TLS_client_mode));
			DI(w, ctx_setup_from_files(&cx, &r, server ? cr->srv_chain : cr->cli_chain, server ? cr->srv_chain_len : cr->cli_chain_len,
				server ? &cr->srv_sign.key : &cr->cli_sign.key, NULL, cr->trust, cr->trust_len, w->id % 5));
			DI(w, cx.verify_depth); DI(w, (int64_t)cx.certslen); DI(w, (int64_t)cx.cacertslen);
			tls_ctx_cleanup(&cx);
			break; }
		default: { /* ECDH between two fresh keys: both sides must agree */
			SM2_KEY a, b; SM2_Z256_POINT s1, s2; uint8_t x1[64], x2[64];
			DI1(w, sm2_key_generate(&a)); DI1(w, sm2_key_generate(&b));
			DI(w, sm2_do_ecdh(&a, &b.public_key, &s1)); DI(w, sm2_do_ecdh(&b, &a.public_key, &s2));
			sm2_z256_point_to_bytes(&s1, x1); sm2_z256_point_to_bytes(&s2, x2); D(w, x1, 64);
			if (memcmp(x1, x2, 64)) wfail(w, "ecdh agreement");
			break; }
		}
	next_op:
		w->ops_done++;
	}
}

static void conn_task(void *arg)
{
	Worker *w = arg;
	Endpoint *ep = w->ep;
	ep_task(ep);
	w->digest = 0x7a5d;
	DI(w, ep->hs_ret); DI(w, ep->io_err); DI(w, (int64_t)ep->wrote[0]); DI(w, (int64_t)ep->wrote[1]);
	DI(w, (int64_t)ep->got[0]); DI(w, (int64_t)ep->got[1]);
	if (ep->hs_ret == 1) { D(w, ep->keys.master_secret, 48); D(w, ep->keys.key_block, 96); D(w, ep->keys.cw_iv, 12); D(w, ep->keys.sw_iv, 12); }
	if (ep->hs_ret != 1 && !(g_tp->cred_mode & 64)) wfail(w, "handshake");
	else if (ep->io_err) wfail(w, ep->io_err_what);
	w->ops_done = 1;
}

static void threads_gen(Plan *p, uint64_t base_seed, uint64_t variant, int tier)
{
	Rng g;
	(void)variant;
	plan_init(p, "threads");
	p->seed = (int64_t)base_seed;
	rng_seed(&g, base_seed, 0x420);
	p->sched_seed = (int64_t)(rng_u64(&g) >> 1);
	p->net_seed = (int64_t)(rng_u64(&g) >> 1);
	p->plan_seed = (int64_t)(rng_u64(&g) >> 1);
	p->ent_c = (int64_t)(rng_u64(&g) >> 1);
	p->ntasks = 2 + rng_below(&g, tier ? 15 : 5);
	static const int64_t means[] = { 8, 25, 100, 500, 3000 };
	p->preempt_mean = means[rng_below(&g, 5)];
	p->pct_d = rng_chance(&g, 1, 4) ? 1 + rng_below(&g, 3) : 0;
	p->op_count = 2 + rng_below(&g, tier ? 8 : 4);
	p->victim = rng_below(&g, 3);            /* number of connection pairs among the tasks (0..2) */
	p->proto = rng_below(&g, 3); p->mutual = rng_below(&g, 2); p->depth = 1 + rng_below(&g, 2);
	if (p->proto == P_TLCP) p->depth = 1;
	p->stay_num = 1; p->stay_den = 2;
	p->seg_style = (int64_t[]){ 0, 2, 3 }[rng_below(&g, 3)]; p->max_chunk = 200; p->max_lat_ns = rng_chance(&g, 1, 2) ? 0 : 50000;
	gen_rounds(p, &g, tier, 2, 3000);
	/* non-blocking sockets for the connection tasks; allocator failures for the script tasks */
	p->eagain = rng_chance(&g, 1, 3);
	/* a third of the plans are storms of one operation kind: two tasks are then inside the same library function
	 * far more often than in a mixed workload, which is what function-local shared state needs to show */
	p->op = rng_chance(&g, 1, 3) ? 1 + rng_below(&g, 26) : 0;
	if (p->victim > 0 && rng_chance(&g, 1, 4)) p->cred_mode |= 64;
	if (rng_chance(&g, 1, 4)) { p->afail_node = -2; p->afail_at = rng_below(&g, 3); p->afail_rest = rng_chance(&g, 2, 3); }
	else if (rng_chance(&g, 1, 4)) {
		int pairs = (int)p->victim; if (pairs * 2 > p->ntasks) pairs = (int)p->ntasks / 2;
		if (p->ntasks - pairs * 2 >= 2) {
			p->efail_node = pairs * 2 + rng_below(&g, (uint32_t)(p->ntasks - pairs * 2));
			p->efail_at = rng_below(&g, 4); p->efail_rest = rng_chance(&g, 1, 2); p->efail_errno = 5;
		}
	}
}

static uint64_t g_seq_digest[MAX_WT];
static int g_seq_failed[MAX_WT];

static void threads_exec(const Plan *p, int preempt)
{
	arena_begin();
	sim_reset((uint64_t)p->sched_seed);
	net_reset(); mon_reset(); cap_reset();
	g_sim.stay_num = preempt ? 1 : 1; g_sim.stay_den = preempt ? 2 : 1;
	g_sim.next_event = net_next_event;
	g_sim.on_quiesce = quiesce_handler;
	g_sim.step_cap = 60000000;     /* function-entry preemption yields millions of times */
	int nt = (int)p->ntasks;
	if (nt > MAX_WT) nt = MAX_WT;
	int pairs = (int)p->victim;
	if (pairs * 2 > nt) pairs = nt / 2;
	memset(g_w, 0, sizeof(g_w));
	NetKnobs k; memset(&k, 0, sizeof(k));
	k.seg_style = (int)p->seg_style; k.max_chunk = (int)p->max_chunk; k.max_lat_ns = p->max_lat_ns; k.eagain = (int)p->eagain;
	const CredSet *cs = creds_get((int)p->depth, p->proto == P_TLCP);
	for (int i = 0; i < nt; i++) {
		Worker *w = &g_w[i];
		w->id = i; w->node = i;
		rng_seed(&g_sim.nodes[i].ent, (uint64_t)p->ent_c, 0x7000 + (uint64_t)i);
		g_sim.nodes[i].skew_s = i * 3;
		w->script_seed = mix64((uint64_t)p->plan_seed + (uint64_t)i * 977);
		w->nops = (int)p->op_count;
		/* allocator failures only in script tasks: what a connection endpoint has written when its peer gives up
		 * depends on the schedule, a script's results never do */
		if (i >= pairs * 2 && p->afail_at >= 0 && (p->afail_node == -2 || p->afail_node == i)) {
			g_sim.nodes[i].afail_at = p->afail_at; g_sim.nodes[i].afail_rest = (int)p->afail_rest;
		}
		/* the entropy source of ONE script task fails: that task's operations fail, nobody else's may */
		if (i >= pairs * 2 && p->efail_at >= 0 && p->efail_node == i) {
			g_sim.nodes[i].efail_at = p->efail_at; g_sim.nodes[i].efail_rest = (int)p->efail_rest; g_sim.nodes[i].efail_errno = (int)p->efail_errno;
		}
		if (i < pairs * 2) {
			int ci = i / 2, side = i % 2;
			Conn *c = side == 0 ? net_conn_new(&k, (uint64_t)p->net_seed + (uint64_t)ci) : &g_conns[ci];
			Endpoint *ep = &g_ep[ci * 2 + side];
			/* cred_mode 64: the servers present chains under another root than the clients trust, so every
			 * connection task ends in the alert path (bad certificate), several of them at the same time */
			const CredSet *use = (p->cred_mode & 64) && side == 1 ? creds_get_eku((int)p->depth, p->proto == P_TLCP) : cs;
			if (ep_setup(ep, side, c, p, use, i) != 1) die("ep_setup");
			w->ep = ep; w->conn_side = side;
		}
	}
	g_tp = p;
	for (int i = 0; i < nt; i++) {
		Worker *w = &g_w[i];
		int t = sim_spawn(w->ep ? (w->conn_side ? "server" : "client") : "worker", w->node, w->ep ? conn_task : script_task, w);
		g_sim.tasks[t].prio = nt - i;
	}
	g_hook_calls = g_hook_yields = 0;
	g_preempt_mean = p->preempt_mean;
	g_sim.pct = 0;
	if (preempt && p->pct_d > 0) {
		/* PCT: random priorities, d change points handled by the hook */
		g_sim.pct = (int)p->pct_d;
		for (int i = 0; i < g_sim.ntasks; i++) g_sim.tasks[i].prio = (int)rng_below(&g_sim.sched, 1000) + 10;
	}
	preempt_reset(preempt ? (int)p->pct_d : 0);
	g_preempt_on = preempt;
	sim_run();
	g_preempt_on = 0;
	for (int i = 0; i < pairs * 2; i++) ep_free(&g_ep[i]);
	arena_end();
}

static void threads_run(const Plan *p, RunResult *r)
{
	threads_setup();
	int nt = (int)(p->ntasks > MAX_WT ? MAX_WT : p->ntasks);
	/* baseline: same scripts, no preemption inside library code, run-to-block schedule */
	threads_exec(p, 0);
	for (int i = 0; i < nt; i++) { g_seq_digest[i] = g_w[i].digest; g_seq_failed[i] = g_w[i].failed; }
	int base_fail = -1;
	for (int i = 0; i < nt; i++) if (g_w[i].failed) base_fail = i;
	int afail = p->afail_at >= 0 || p->efail_at >= 0;     /* with allocator / entropy failures a script op may fail, alone and under preemption alike */
	if (base_fail >= 0 && !afail) {
		r->twin_failed = 1;
		snprintf(r->extra, sizeof(r->extra), "twin_failed=\"task %d: %s\"", base_fail, g_w[base_fail].failed_what);
		return;
	}
	threads_exec(p, 1);
	r->nontrivial = g_hook_yields > 0;
	r->nontrivial_id = g_sim.ileave;
	if (p->afail_at >= 0) {
		int fired = 0;
		for (int i = 0; i < nt; i++) fired += g_sim.nodes[i].afail_fired;
		r->faults_cfg[F_AFAIL] = 1; r->faults_fired[F_AFAIL] = fired > 0;
	}
	if (p->efail_at >= 0) {
		/* the healthy tasks must not have seen a single failed operation (checked against their own baseline below;
		 * in the baseline itself a task other than the starved one that failed means the failure spread) */
		for (int i = 0; i < nt; i++)
			if (i != p->efail_node && !g_w[i].ep && g_seq_failed[i]) {
				rr_violation(r, "x", "task %d failed an operation (%s) although only task %d's entropy source fails", i, g_w[i].failed_what, (int)p->efail_node);
				snprintf(r->vclass, sizeof(r->vclass), "seq_diverge:failure_spread");
				return;
			}
	}
	snprintf(r->extra, sizeof(r->extra), "proto=%s mutual=%d depth=%d tasks=%d pairs=%d mean=%d pct=%d hook_calls=%llu preemptions=%llu",
		g_proto_names[p->proto], (int)p->mutual, (int)p->depth, nt, (int)p->victim, (int)p->preempt_mean, (int)p->pct_d,
		(unsigned long long)g_hook_calls, (unsigned long long)g_hook_yields);
	if (g_sim.step_capped) { rr_violation(r, "no_termination", "step cap"); return; }
	for (int i = 0; i < nt; i++) {
		if (g_w[i].digest != g_seq_digest[i] || (afail ? g_w[i].failed != g_seq_failed[i] : g_w[i].failed)) {
			rr_violation(r, "x", "task %d (%s) produced a different result log under preemption (%llu context switches, mean %d calls) than when run without: %s",
				i, g_w[i].ep ? "connection endpoint" : "script", (unsigned long long)g_sim.switches, (int)p->preempt_mean,
				g_w[i].failed ? g_w[i].failed_what : "digest differs");
			snprintf(r->vclass, sizeof(r->vclass), "seq_diverge:%s", g_w[i].ep ? "connection" : "script");
			return;
		}
	}
}

const Scenario g_scn_threads = { "threads", "C20", 1, threads_gen, threads_run };
