/* C06 (scoped) — no memory-safety violation from the peer's byte stream
 * (DESIGN 4.5).  The interposer acts as a byzantine peer: handshake messages
 * of one direction are rewritten by seeded structure-aware mutators before
 * they reach the victim; protected messages are unprotected with the sender's
 * own keys, rewritten and re-protected so that the victim's parser is what is
 * exercised.  Oracle: sanitizer reports (process level), hangs, state
 * integrity, every call returns. */
#define _GNU_SOURCE
#include "gmsim.h"

/* exported by libgmssl but not declared in tls.h */
int tls13_record_encrypt(const BLOCK_CIPHER_KEY *key, const uint8_t iv[12],
	const uint8_t seq_num[8], const uint8_t *record, size_t recordlen, size_t padding_len,
	uint8_t *enced_record, size_t *enced_recordlen);
int tls13_record_decrypt(const BLOCK_CIPHER_KEY *key, const uint8_t iv[12],
	const uint8_t seq_num[8], const uint8_t *enced_record, size_t enced_recordlen,
	uint8_t *record, size_t *recordlen);

/* ------------------------------------------------------------ DER tree */
typedef struct DNode {
	uint8_t tag;
	int constructed;           /* children parsed */
	int first, next;           /* child / sibling indices, -1 none */
	const uint8_t *raw; size_t rawlen;   /* content when not constructed */
	uint8_t *own; size_t ownlen;          /* replaced content */
	int lenmode;               /* 0 correct minimal, else deliberately wrong (see emit) */
	int dup, drop;
} DNode;
#define MAX_DN 600
static DNode g_dn[MAX_DN];
static int g_ndn;

static int der_parse_list(const uint8_t *p, size_t n, int depth);

static int der_parse_one(const uint8_t **pp, size_t *pn, int depth)
{
	const uint8_t *p = *pp; size_t n = *pn;
	if (n < 2 || g_ndn >= MAX_DN) return -1;
	uint8_t tag = p[0];
	size_t len, hl;
	if (p[1] < 0x80) { len = p[1]; hl = 2; }
	else {
		int k = p[1] & 0x7f;
		if (k == 0 || k > 3 || n < 2 + (size_t)k) return -1;
		len = 0;
		for (int i = 0; i < k; i++) len = (len << 8) | p[2 + i];
		hl = 2 + (size_t)k;
	}
	if (len > n - hl) return -1;
	int id = g_ndn++;
	DNode *d = &g_dn[id];
	memset(d, 0, sizeof(*d));
	d->tag = tag; d->first = -1; d->next = -1;
	d->raw = p + hl; d->rawlen = len;
	int try_inside = (tag & 0x20) || ((tag == 0x04 || tag == 0x03) && len > 2 && depth < 12);
	if (try_inside && depth < 14) {
		int save = g_ndn;
		const uint8_t *q = p + hl; size_t qn = len;
		if (tag == 0x03 && qn > 0) { q++; qn--; }      /* BIT STRING: skip unused-bits octet */
		int first = der_parse_list(q, qn, depth + 1);
		if (first >= 0 && (tag & 0x20)) { d->constructed = 1; d->first = first; }
		else if (first >= 0 && tag == 0x04) { d->constructed = 2; d->first = first; }   /* OCTET STRING wrapping DER */
		else g_ndn = save;
	}
	*pp = p + hl + len; *pn = n - hl - len;
	return id;
}

static int der_parse_list(const uint8_t *p, size_t n, int depth)
{
	int first = -1, prev = -1;
	if (n == 0) return -1;
	while (n) {
		int id = der_parse_one(&p, &n, depth);
		if (id < 0) return -1;
		if (prev >= 0) g_dn[prev].next = id; else first = id;
		prev = id;
	}
	return first;
}

static size_t der_emit(int id, uint8_t *out, size_t cap);

static size_t der_emit_list(int first, uint8_t *out, size_t cap)
{
	size_t n = 0;
	for (int id = first; id >= 0; id = g_dn[id].next) {
		if (g_dn[id].drop) continue;
		size_t k = der_emit(id, out + n, cap - n);
		n += k;
		for (int rep = 0; rep < g_dn[id].dup && cap - n > k + 64; rep++) { memcpy(out + n, out + n - k, k); n += k; }
		if (cap - n < 64) break;
	}
	return n;
}

static size_t der_emit(int id, uint8_t *out, size_t cap)
{
	static uint8_t tmp[16][20000];
	static int lvl;
	DNode *d = &g_dn[id];
	const uint8_t *content; size_t clen;
	if (lvl >= 15) return 0;
	uint8_t *buf = tmp[lvl];
	if (d->own) { content = d->own; clen = d->ownlen; }
	else if (d->constructed) {
		lvl++;
		clen = der_emit_list(d->first, buf, sizeof(tmp[0]) - 16);
		lvl--;
		content = buf;
	} else { content = d->raw; clen = d->rawlen; }
	if (cap < clen + 8) return 0;
	size_t n = 0, L = clen;
	out[n++] = d->tag;
	switch (d->lenmode) {
	case 1: L = 0; break;
	case 2: L = clen + 1; break;
	case 3: L = clen ? clen - 1 : 0; break;
	case 4: L = 0xffffff; break;
	case 5: L = clen + 0x100; break;
	default: break;
	}
	if (d->lenmode == 6) { out[n++] = 0x80; }                                   /* indefinite */
	else if (d->lenmode == 7) { out[n++] = 0x84; out[n++] = 0xff; out[n++] = 0xff; out[n++] = 0xff; out[n++] = 0xff; }
	else if (d->lenmode == 8) { out[n++] = 0x82; out[n++] = (uint8_t)(L >> 8); out[n++] = (uint8_t)L; }   /* non-minimal */
	else if (L < 0x80) out[n++] = (uint8_t)L;
	else if (L < 0x100) { out[n++] = 0x81; out[n++] = (uint8_t)L; }
	else if (L < 0x10000) { out[n++] = 0x82; out[n++] = (uint8_t)(L >> 8); out[n++] = (uint8_t)L; }
	else { out[n++] = 0x83; out[n++] = (uint8_t)(L >> 16); out[n++] = (uint8_t)(L >> 8); out[n++] = (uint8_t)L; }
	memcpy(out + n, content, clen);
	return n + clen;
}

static uint8_t g_own[4][600];
static int g_nown;

/* mutate one certificate (DER) in place into out; returns new length */
static size_t der_mutate(Rng *r, const uint8_t *cert, size_t certlen, uint8_t *out, size_t cap, char *what, size_t wl)
{
	g_ndn = 0; g_nown = 0;
	const uint8_t *p = cert; size_t n = certlen;
	int root = der_parse_one(&p, &n, 0);
	if (root < 0 || g_ndn < 3) { memcpy(out, cert, certlen); return certlen; }
	int nm = 1 + (int)rng_below(r, 2);
	for (int m = 0; m < nm; m++) {
		int id = (int)rng_below(r, (uint32_t)g_ndn);
		DNode *d = &g_dn[id];
		int kind = (int)rng_below(r, 12);
		if (g_ndn <= 8 && rng_chance(r, 1, 3)) {      /* small trees (ciphertext, signature): content sizes matter most, */
			kind = 7;
			if (rng_chance(r, 1, 2)) {                 /* above all that of the string that carries the payload */
				for (int k = 0; k < g_ndn; k++)
					if (!g_dn[k].constructed && (g_dn[id].constructed || g_dn[k].rawlen > g_dn[id].rawlen)) id = k;
				d = &g_dn[id];
			}
		}
		switch (kind) {
		case 0: case 1: case 2: d->lenmode = 1 + (int)rng_below(r, 8); snprintf(what, wl, "der_len%d@node%d(tag%02x)", d->lenmode, id, d->tag); break;
		case 3: d->dup = rng_chance(r, 1, 2) ? 1 : 2 + (int)rng_below(r, 30);        /* once, or a whole run of copies (SEQUENCE OF beyond its receiver's array) */
			snprintf(what, wl, "der_dup%d@node%d(tag%02x)", d->dup, id, d->tag); break;
		case 4: d->drop = 1; snprintf(what, wl, "der_drop@node%d(tag%02x)", id, d->tag); break;
		case 5: d->tag = (uint8_t)rng_u64(r); snprintf(what, wl, "der_tag@node%d->%02x", id, d->tag); break;
		case 6: { /* long OID: 1..40 arcs, some 5-byte arcs, into some OID node */
			int tries = 0, o = id;
			while (g_dn[o].tag != 0x06 && tries++ < 40) o = (int)rng_below(r, (uint32_t)g_ndn);
			if (g_dn[o].tag != 0x06 || g_nown >= 4) break;
			uint8_t *b = g_own[g_nown++]; size_t k = 0;
			int arcs = 1 + (int)rng_below(r, 45);
			b[k++] = 0x2a;
			for (int a = 0; a < arcs && k < 560; a++) {
				if (rng_chance(r, 1, 3)) { b[k++] = 0x8f; b[k++] = 0xff; b[k++] = 0xff; b[k++] = 0xff; b[k++] = 0x7f; }
				else if (rng_chance(r, 1, 8)) { b[k++] = 0x80; b[k++] = 0x01; }       /* non-minimal arc */
				else b[k++] = (uint8_t)rng_below(r, 128);
			}
			if (rng_chance(r, 1, 6)) b[k - 1] |= 0x80;                            /* unterminated last arc */
			g_dn[o].own = b; g_dn[o].ownlen = k;
			snprintf(what, wl, "der_oid_%darcs@node%d", arcs, o);
			break; }
		case 7: { /* integer / bit / octet string content variants, including much longer ones */
			if (g_nown >= 4) break;
			static const size_t grow[] = { 255, 256, 257, 300, 366, 367, 512, 590 };
			uint8_t *b = g_own[g_nown++]; size_t k = rng_chance(r, 1, 2) ? grow[rng_below(r, 8)] : rng_below(r, 80);
			int v = (int)rng_below(r, 3);
			memset(b, v == 0 ? 0x00 : v == 1 ? 0xff : 0x80, k);
			d->own = b; d->ownlen = k; d->constructed = 0;
			snprintf(what, wl, "der_content_%zux%02x@node%d(tag%02x)", k, b[0], id, d->tag);
			break; }
		case 9: case 10: { /* grow a SEQUENCE OF / SET OF: a constructed node whose children all carry one tag gets 7..40 more
		                    * copies of its first child (receivers keep such lists in fixed arrays) */
			int cand[64], nc = 0;
			for (int i = 0; i < g_ndn && nc < 64; i++) {
				if (g_dn[i].constructed != 1 || g_dn[i].first < 0) continue;
				int f = g_dn[i].first, same = 1;
				if (g_dn[f].rawlen > 48) continue;
				for (int c2 = g_dn[f].next; c2 >= 0; c2 = g_dn[c2].next) if (g_dn[c2].tag != g_dn[f].tag) same = 0;
				if (same) cand[nc++] = f;
			}
			if (!nc) break;
			int f = cand[rng_below(r, (uint32_t)nc)];
			g_dn[f].dup = 7 + (int)rng_below(r, 34);
			snprintf(what, wl, "der_list_grown_by_%d@node%d(tag%02x)", g_dn[f].dup, f, g_dn[f].tag);
			break; }
		case 8: { /* time values whose fields are digits but out of range (month 13..99, day 00/32.., hour 24..) */
			int tries = 0, o = id;
			while (g_dn[o].tag != 0x17 && g_dn[o].tag != 0x18 && tries++ < 60) o = (int)rng_below(r, (uint32_t)g_ndn);
			if ((g_dn[o].tag != 0x17 && g_dn[o].tag != 0x18) || g_nown >= 4 || g_dn[o].rawlen < 12 || g_dn[o].rawlen > 40) break;
			uint8_t *b = g_own[g_nown++];
			memcpy(b, g_dn[o].raw, g_dn[o].rawlen);
			size_t base = g_dn[o].tag == 0x18 ? 2 : 0;                 /* GeneralizedTime has a 4-digit year */
			int field = 1 + (int)rng_below(r, 5);                      /* month, day, hour, minute, second */
			static const char *bad[] = { "00", "13", "19", "24", "32", "60", "61", "99" };
			memcpy(b + base + 2 * (size_t)field, bad[rng_below(r, 8)], 2);
			g_dn[o].own = b; g_dn[o].ownlen = g_dn[o].rawlen;
			snprintf(what, wl, "der_time_field%d=%c%c@node%d", field, b[base + 2 * field], b[base + 2 * field + 1], o);
			break; }
		default: { /* random byte inside a leaf */
			if (d->constructed || !d->rawlen || g_nown >= 4 || d->rawlen > 600) break;
			uint8_t *b = g_own[g_nown++];
			memcpy(b, d->raw, d->rawlen);
			b[rng_below(r, (uint32_t)d->rawlen)] = (uint8_t)rng_u64(r);
			d->own = b; d->ownlen = d->rawlen;
			snprintf(what, wl, "der_byte@node%d(tag%02x)", id, d->tag);
			break; }
		}
	}
	return der_emit(root, out, cap);
}

/* ------------------------------------------------- handshake mutators */
static void put24(uint8_t *p, size_t v) { p[0] = (uint8_t)(v >> 16); p[1] = (uint8_t)(v >> 8); p[2] = (uint8_t)v; }
static size_t get24(const uint8_t *p) { return ((size_t)p[0] << 16) | ((size_t)p[1] << 8) | p[2]; }
static const uint64_t g_interesting[] = { 0, 1, 2, 0x7f, 0x80, 0xff, 0x100, 0x7fff, 0x8000, 0xffff, 0xffffff };

/* rec = 5-byte record header + handshake message; returns new total length.
 * `tls13` tells the Certificate layout.  When `consistent`, the handshake and
 * record length fields are fixed up afterwards. */
static size_t hs_mutate(Rng *r, uint8_t *rec, size_t len, size_t cap, int tls13, char *what, size_t wl)
{
	static uint8_t tmp[TLS_MAX_RECORD_SIZE + 4096];
	if (len < 9) return len;
	int ht = rec[5];
	uint8_t *body = rec + 9;
	size_t blen = len - 9;
	int consistent = !rng_chance(r, 1, 4);
	int kind = (int)rng_below(r, 14);
	what[0] = 0;
	/* the Hello messages have their own family of field-aware mutators: use it half of the time */
	if ((ht == TLS_handshake_client_hello || ht == TLS_handshake_server_hello) && rng_chance(r, 1, 2)) kind = 6;
	/* messages that are little more than one DER blob (SM2 ciphertext, signatures) end in fixed-size receivers:
	 * their DER-aware mutator gets a larger share */
	if ((ht == TLS_handshake_client_key_exchange || ht == TLS_handshake_server_key_exchange || ht == TLS_handshake_certificate_verify) && rng_chance(r, 1, 3)) kind = 11;

	if (ht == TLS_handshake_certificate && blen > 10 && kind < 8) {
		/* re-frame the certificate list with one certificate mutated, or a huge list */
		size_t off = 0, ctxlen = 0;
		if (tls13) { ctxlen = body[0]; off = 1 + ctxlen; }
		if (off + 3 > blen) return len;
		size_t listlen = get24(body + off);
		const uint8_t *lp = body + off + 3, *le = lp + listlen;
		if (le > body + blen) le = body + blen;
		const uint8_t *certs[12]; size_t clens[12]; int nc = 0;
		while (lp + 3 <= le && nc < 12) {
			size_t cl = get24(lp);
			if (lp + 3 + cl > le) break;
			certs[nc] = lp + 3; clens[nc] = cl; nc++;
			lp += 3 + cl;
			if (tls13) { if (lp + 2 > le) break; lp += 2 + (((size_t)lp[0] << 8) | lp[1]); }
		}
		if (nc == 0) return len;
		size_t n = 0;
		uint8_t *o = tmp;
		if (tls13) { memcpy(o, body, 1 + ctxlen); n = 1 + ctxlen; }
		size_t list_at = n; n += 3;
		if (kind == 0) {
			/* many real certificates: far more than TLS_MAX_CERTIFICATES_SIZE */
			int copies = 2 + (int)rng_below(r, 14);
			for (int c = 0; c < copies && n + 900 < 15000; c++)
				for (int i = 0; i < nc && n + clens[i] + 8 < 15000; i++) {
					put24(o + n, clens[i]); n += 3; memcpy(o + n, certs[i], clens[i]); n += clens[i];
					if (tls13) { o[n++] = 0; o[n++] = 0; }
				}
			snprintf(what, wl, "cert_list_x%d", copies);
		} else {
			int target = (int)rng_below(r, (uint32_t)nc);
			for (int i = 0; i < nc; i++) {
				size_t cl = clens[i];
				static uint8_t mc[9000];
				const uint8_t *src = certs[i];
				if (i == target) { cl = der_mutate(r, certs[i], clens[i], mc, sizeof(mc), what, wl); src = mc; }
				if (n + cl + 8 > sizeof(tmp) - 64) break;
				put24(o + n, cl); n += 3; memcpy(o + n, src, cl); n += cl;
				if (tls13) { o[n++] = 0; o[n++] = 0; }
			}
		}
		put24(o + list_at, n - list_at - 3);
		if (9 + n > cap) n = cap - 9;
		memcpy(body, o, n);
		blen = n;
		consistent = 1;
	} else if (ht != TLS_handshake_certificate && kind >= 11 && blen > 12) {
		/* messages that embed DER (SM2 ciphertext in ClientKeyExchange, signatures in ServerKeyExchange /
		 * CertificateVerify): find the embedded SEQUENCE, mutate its tree, re-frame the preceding length */
		size_t at = 0;
		for (size_t i = 0; i + 4 < blen; i++) {
			if (body[i] != 0x30) continue;
			size_t l = body[i + 1], hl = 2;
			if (l == 0x81) { l = body[i + 2]; hl = 3; } else if (l == 0x82) { l = ((size_t)body[i + 2] << 8) | body[i + 3]; hl = 4; } else if (l >= 0x80) continue;
			if (i + hl + l == blen) { at = i; break; }
		}
		if (at) {
			static uint8_t md[4096];
			size_t n = der_mutate(r, body + at, blen - at, md, sizeof(md), what, wl);
			if (n && at + n + 9 < cap) {
				memcpy(body + at, md, n);
				/* a 16-bit vector length usually precedes the DER blob */
				if (at >= 2 && ((((size_t)body[at - 2] << 8) | body[at - 1]) == blen - at) && consistent) { body[at - 2] = (uint8_t)(n >> 8); body[at - 1] = (uint8_t)n; }
				blen = at + n;
			}
		}
	} else switch (kind % 8) {
	case 0: { int k = 1 + (int)rng_below(r, 8);
		for (int i = 0; i < k && blen; i++) body[rng_below(r, (uint32_t)blen)] = (uint8_t)rng_u64(r);
		snprintf(what, wl, "bytes_x%d", k); break; }
	case 1: if (blen) { blen = rng_below(r, (uint32_t)blen); snprintf(what, wl, "trunc_to_%zu", blen); } break;
	case 2: { size_t k = 1 + rng_below(r, 600); if (9 + blen + k > cap) k = cap - 9 - blen;
		if (rng_chance(r, 1, 2)) rng_bytes(r, body + blen, k); else memset(body + blen, 0, k);
		blen += k; snprintf(what, wl, "extend_%zu", k); break; }
	case 3: if (blen >= 2) { size_t at = rng_below(r, (uint32_t)(blen - 1)); uint64_t v = g_interesting[rng_below(r, 10)];
		if (rng_chance(r, 1, 2)) v = blen - at - 2 + (int64_t)rng_below(r, 3) - 1;
		body[at] = (uint8_t)(v >> 8); body[at + 1] = (uint8_t)v; snprintf(what, wl, "u16@%zu=%llu", at, (unsigned long long)(v & 0xffff)); } break;
	case 4: if (blen >= 1) { size_t at = rng_below(r, (uint32_t)blen); body[at] = (uint8_t)g_interesting[rng_below(r, 6)];
		snprintf(what, wl, "u8@%zu=%u", at, body[at]); } break;
	case 5: if (blen >= 3) { size_t at = rng_below(r, (uint32_t)(blen - 2)); uint64_t v = g_interesting[rng_below(r, 11)];
		if (rng_chance(r, 1, 2)) v = blen - at - 3 + (int64_t)rng_below(r, 3) - 1;
		put24(body + at, (size_t)v); snprintf(what, wl, "u24@%zu=%llu", at, (unsigned long long)(v & 0xffffff)); } break;
	case 6: /* hello: session id of arbitrary length / no extensions / odd cipher list */
		if ((ht == TLS_handshake_client_hello || ht == TLS_handshake_server_hello) && blen > 35) {
			int sub = (int)rng_below(r, 4);
			if (sub == 3 && ht == TLS_handshake_client_hello) {
				/* the items of one list-valued extension (key_share, supported_groups, signature_algorithms) repeated,
				 * all lengths consistent: a responder that answers per item must not outgrow its reply buffer */
				size_t at = 35 + body[34];
				if (at + 2 <= blen) at += 2 + (((size_t)body[at] << 8) | body[at + 1]);
				if (at < blen) at += 1 + body[at];
				if (at + 2 <= blen) {
					size_t elen = ((size_t)body[at] << 8) | body[at + 1];
					uint8_t *ex = body + at + 2;
					if (at + 2 + elen <= blen) {
						size_t offs[32]; int nl = 0;
						for (size_t o = 0; o + 4 <= elen && nl < 32; ) {
							size_t l = ((size_t)ex[o + 2] << 8) | ex[o + 3];
							if (o + 4 + l > elen) break;
							if (l >= 4 && ((((size_t)ex[o + 4] << 8) | ex[o + 5]) == l - 2)) offs[nl++] = o;
							o += 4 + l;
						}
						if (nl) {
							size_t o = offs[rng_below(r, (uint32_t)nl)];
							size_t l = ((size_t)ex[o + 2] << 8) | ex[o + 3], items = l - 2;
							int copies = 2 + (int)rng_below(r, 200);
							static uint8_t blk[1024];
							while (copies > 2 && (items * (size_t)copies > 60000 || at + 2 + elen + items * (size_t)(copies - 1) + 9 >= cap)) copies /= 2;
							size_t add = items * (size_t)(copies - 1);
							if (items && items <= sizeof(blk) && at + 2 + elen + add + 9 < cap && elen + add <= 65535) {
								memcpy(blk, ex + o + 6, items);
								memmove(ex + o + 4 + l + add, ex + o + 4 + l, elen - (o + 4 + l));
								for (int cpy = 1; cpy < copies; cpy++) memcpy(ex + o + 6 + items * (size_t)cpy, blk, items);
								size_t nl2 = l + add, ni = items * (size_t)copies, ne = elen + add;
								ex[o + 2] = (uint8_t)(nl2 >> 8); ex[o + 3] = (uint8_t)nl2;
								ex[o + 4] = (uint8_t)(ni >> 8); ex[o + 5] = (uint8_t)ni;
								body[at] = (uint8_t)(ne >> 8); body[at + 1] = (uint8_t)ne;
								blen += add;
								snprintf(what, wl, "ext_%u_items_x%d", (unsigned)((ex[o] << 8) | ex[o + 1]), copies);
							}
						}
					}
				}
			} else if (sub == 0) {
				size_t sl = rng_below(r, 256), old = body[34];
				if (35 + old <= blen && 9 + blen - old + sl <= cap) {
					memmove(body + 35 + sl, body + 35 + old, blen - 35 - old);
					rng_bytes(r, body + 35, sl);
					body[34] = (uint8_t)sl; blen = blen - old + sl;
					snprintf(what, wl, "session_id_%zu", sl);
				}
			} else if (sub == 1 && ht == TLS_handshake_client_hello) {
				/* drop everything after compression methods */
				size_t at = 35 + body[34];
				if (at + 2 <= blen) { at += 2 + (((size_t)body[at] << 8) | body[at + 1]); if (at < blen) { at += 1 + body[at]; if (at <= blen) { blen = at; snprintf(what, wl, "hello_without_extensions"); } } }
			} else if (ht == TLS_handshake_client_hello && rng_chance(r, 1, 2)) {
				/* one extension repeated many times, all lengths consistent */
				size_t at = 35 + body[34];
				if (at + 2 <= blen) { at += 2 + (((size_t)body[at] << 8) | body[at + 1]); }
				if (at < blen) at += 1 + body[at];
				if (at + 2 <= blen) {
					size_t elen = ((size_t)body[at] << 8) | body[at + 1];
					uint8_t *ex = body + at + 2;
					if (at + 2 + elen <= blen && elen >= 4) {
						size_t one = 4 + (((size_t)ex[2] << 8) | ex[3]);
						if (one <= elen) {
							int copies = 10 + (int)rng_below(r, 400);
							size_t tot = elen;
							uint8_t first[256];
							if (one <= sizeof(first)) {
								memcpy(first, ex, one);
								for (int cpy = 0; cpy < copies && at + 2 + tot + one + 9 < cap && tot + one < 60000; cpy++) { memcpy(ex + tot, first, one); tot += one; }
								body[at] = (uint8_t)(tot >> 8); body[at + 1] = (uint8_t)tot;
								blen = at + 2 + tot;
								snprintf(what, wl, "extension_x%d", copies);
							}
						}
					}
				}
			} else if (ht == TLS_handshake_client_hello) {
				size_t at = 35 + body[34];
				if (at + 2 <= blen) { uint64_t v = (uint64_t[]){ 0, 1, 3, 65534, 65535 }[rng_below(r, 5)]; body[at] = (uint8_t)(v >> 8); body[at + 1] = (uint8_t)v; snprintf(what, wl, "cipher_list_len_%llu", (unsigned long long)v); }
			}
		}
		break;
	default: { /* key share / ECDH point replaced */
		uint8_t *pt = NULL;
		for (size_t i = 0; i + 66 <= blen; i++) if (body[i] == 65 && body[i + 1] == 4) { pt = body + i; break; }
		if (pt) {
			int sub = (int)rng_below(r, 5);
			if (sub == 0) memset(pt + 2, 0, 64);
			else if (sub == 1) rng_bytes(r, pt + 2, 64);
			else if (sub == 2) pt[1] = (uint8_t)rng_below(r, 8);
			else if (sub == 3) pt[0] = (uint8_t)(64 + rng_below(r, 3));
			else memset(pt + 2, 0xff, 64);
			snprintf(what, wl, "ec_point_variant%d", sub);
		}
		break; }
	}
	if (!what[0] && blen) {
		/* the chosen mutator did not apply to this message: fall back to byte damage */
		int k = 1 + (int)rng_below(r, 4);
		for (int i = 0; i < k; i++) body[rng_below(r, (uint32_t)blen)] = (uint8_t)rng_u64(r);
		snprintf(what, wl, "bytes_x%d", k);
	}
	if (9 + blen > cap) blen = cap - 9;
	if (consistent) {
		put24(rec + 6, blen);
		rec[3] = (uint8_t)((blen + 4) >> 8); rec[4] = (uint8_t)(blen + 4);
	} else {
		/* keep the old handshake length; the record length follows the real size so that framing on the wire stays sane */
		rec[3] = (uint8_t)((blen + 4) >> 8); rec[4] = (uint8_t)(blen + 4);
		if (rng_chance(r, 1, 3)) { rec[3] = (uint8_t)rng_u64(r) & 0x3f; rec[4] = (uint8_t)rng_u64(r); }
	}
	return 9 + blen;
}

/* ------------------------------------------------------------ interposer */
static const Plan *g_bp;
static int g_byz_fired, g_byz_reenc, g_byz_ccs_seen[2];
static char g_byz_what[3][96];
static Rng g_brng;

static TLS_CONNECT *sender_conn(int dir) { return g_ep[dir == DIR_C2S ? 0 : 1].conn; }

static void byz_on_record(Conn *c, int dir, int idx, const uint8_t *rec_in, size_t len)
{
	static uint8_t plain[TLS_MAX_RECORD_SIZE + 8192], out[TLS_MAX_RECORD_SIZE + 8192];
	int victim_dir = g_bp->victim == 0 ? DIR_S2C : DIR_C2S;
	int hit = -1;
	if (len >= 1 && rec_in[0] == TLS_record_change_cipher_spec) g_byz_ccs_seen[dir] = 1;
	for (int i = 0; i < g_bp->nfaults; i++)
		if (g_bp->faults[i].kind == F_MUT && g_bp->faults[i].dir == dir && g_bp->faults[i].rec == idx) hit = i;
	if (dir != victim_dir || hit < 0 || len < 6 || len > TLS_MAX_RECORD_SIZE) { net_forward(c, dir, rec_in, len); return; }
	const Fault *f = &g_bp->faults[hit];
	Rng r;
	rng_seed(&r, (uint64_t)f->a, 0xb12);
	char *what = g_byz_what[hit % 3];
	int tls13 = g_bp->proto == P_TLS13;

	if (g_bp->proto == P_TLCP && dir == DIR_C2S && rec_in[0] == TLS_record_handshake && len > 9 && rec_in[5] == TLS_handshake_client_key_exchange
	    && !g_byz_ccs_seen[dir] && rng_chance(&r, 1, 2)) {
		/* a client that encrypts a well-formed 48-byte pre-master secret to the right certificate, but with another
		 * version in its first two bytes (or none of the expected structure at all) */
		const CredSet *cr = (g_bp->cred_mode & 1) ? creds_get_eku((int)g_bp->depth, 1) : creds_get((int)g_bp->depth, 1);
		uint8_t pms[48], ct[SM2_MAX_CIPHERTEXT_SIZE]; size_t cl = 0;
		rng_bytes(&r, pms, 48);
		static const uint8_t vers[][2] = { { 3, 3 }, { 3, 1 }, { 1, 0 }, { 0, 0 } };
		memcpy(pms, vers[rng_below(&r, 4)], 2);
		SM2_KEY pub; memset(&pub, 0, sizeof(pub)); pub.public_key = cr->srv_enc.key.public_key;
		g_setup_node = -1;
		if (sm2_encrypt(&pub, pms, 48, ct, &cl) == 1 && cl + 11 < sizeof(plain)) {
			leak_add_secret("pre_master_secret", pms, 48);
			memcpy(plain, rec_in, 5);
			plain[5] = TLS_handshake_client_key_exchange; plain[6] = 0; plain[7] = (uint8_t)((cl + 2) >> 8); plain[8] = (uint8_t)(cl + 2);
			plain[9] = (uint8_t)(cl >> 8); plain[10] = (uint8_t)cl; memcpy(plain + 11, ct, cl);
			plain[3] = (uint8_t)((cl + 6) >> 8); plain[4] = (uint8_t)(cl + 6);
			snprintf(what, 96, "cke_reencrypted_pms_version_%02x%02x", pms[0], pms[1]);
			g_byz_fired++;
			sim_trace(EV_FAULT, F_MUT, idx);
			net_forward(c, dir, plain, cl + 11);
			return;
		}
	}
	if (!tls13 && g_byz_ccs_seen[dir] && rec_in[0] == TLS_record_handshake && rng_chance(&r, 1, 2)) {
		/* the sender's first protected record (its Finished) is replaced by a correctly protected record of its own
		 * keys that is something else: application data, an alert, or a handshake message of another type */
		TLS_CONNECT *sc = sender_conn(dir);
		const SM3_HMAC_CTX *mac = dir == DIR_C2S ? &sc->client_write_mac_ctx : &sc->server_write_mac_ctx;
		const SM4_KEY *ek = dir == DIR_C2S ? &sc->client_write_enc_key : &sc->server_write_enc_key;
		uint8_t seq[8] = { 0 }, pt[5 + 64];
		size_t n = 48, olen = 0;
		int kind = (int)rng_below(&r, 3);
		pt[0] = kind == 0 ? TLS_record_application_data : kind == 1 ? TLS_record_alert : TLS_record_handshake;
		pt[1] = rec_in[1]; pt[2] = rec_in[2];
		if (kind == 1) { n = 2; pt[5] = TLS_alert_level_warning; pt[6] = TLS_alert_close_notify; }
		else {
			payload_fill(dir, 7777, pt + 5, n);
			if (kind == 2) { pt[5] = TLS_handshake_certificate_verify; pt[6] = 0; pt[7] = 0; pt[8] = (uint8_t)(n - 4); }
			leak_add_secret("decrypted_plaintext", pt + 5 + 4, n - 4);
		}
		pt[3] = 0; pt[4] = (uint8_t)n;
		if (tls_record_encrypt(mac, ek, seq, pt, 5 + n, out, &olen) == 1) {
			snprintf(what, 96, "finished_replaced_by_protected_type%u", pt[0]);
			g_byz_fired++;
			sim_trace(EV_FAULT, F_MUT, idx);
			net_forward(c, dir, out, olen);
			return;
		}
	}
	if (rec_in[0] == TLS_record_handshake && !(!tls13 && g_byz_ccs_seen[dir])) {
		memcpy(plain, rec_in, len);
		size_t n = hs_mutate(&r, plain, len, TLS_MAX_RECORD_SIZE, tls13, what, 96);
		g_byz_fired++;
		sim_trace(EV_FAULT, F_MUT, idx);
		net_forward(c, dir, plain, n);
		return;
	}
	if (tls13 && rec_in[0] == TLS_record_application_data) {
		/* protected handshake message: unprotect with the sender's own keys, rewrite, re-protect */
		TLS_CONNECT *sc = sender_conn(dir);
		const BLOCK_CIPHER_KEY *key = dir == DIR_C2S ? &sc->client_write_key : &sc->server_write_key;
		const uint8_t *iv = dir == DIR_C2S ? sc->client_write_iv : sc->server_write_iv;
		for (int s = 0; s < 8; s++) {
			uint8_t seq[8] = { 0, 0, 0, 0, 0, 0, 0, (uint8_t)s };
			size_t plen = 0;
			fflush(stderr);
			if (tls13_record_decrypt(key, iv, seq, rec_in, len, plain, &plen) != 1) continue;
			if (plain[0] != TLS_record_handshake) break;
			size_t n = hs_mutate(&r, plain, plen, 16000, 1, what, 96);
			size_t olen = 0;
			plain[1] = 3; plain[2] = 3;
			if (tls13_record_encrypt(key, iv, seq, plain, n, 0, out, &olen) != 1) break;
			g_byz_fired++; g_byz_reenc++;
			sim_trace(EV_FAULT, F_MUT, idx);
			net_forward(c, dir, out, olen);
			return;
		}
	}
	/* anything else (CCS, CBC-protected Finished, data): raw byte-level damage, or a record of the same type whose
	 * body has another (block-aligned or not, small or maximal) size than its receiver's staging buffer expects */
	int is_fin = !tls13 && g_byz_ccs_seen[dir] && rec_in[0] == TLS_record_handshake;
	if (rng_chance(&r, 1, is_fin ? 2 : 3)) {
		static const size_t sizes[] = { 1, 16, 32, 48, 320, 336, 1024, 4096, 16384, 16400, 18432, 18433, 18437 };
		/* a protected Finished goes to a staging buffer of its own (TLS_FINISHED_RECORD_BUF_SIZE): block-aligned bodies
		 * on both sides of that bound */
		static const size_t fin_sizes[] = { 272, 288, 304, 320, 336, 352 };
		size_t bl = is_fin && rng_chance(&r, 1, 2) ? fin_sizes[rng_below(&r, 6)] : sizes[rng_below(&r, 13)];
		memcpy(plain, rec_in, 5);
		rng_bytes(&r, plain + 5, bl > 64 ? 64 : bl);
		if (bl > 64) memset(plain + 5 + 64, 0x3c, bl - 64);
		plain[3] = (uint8_t)(bl >> 8); plain[4] = (uint8_t)bl;
		snprintf(what, 96, "protected_record_resized_%zu", bl);
		g_byz_fired++;
		net_forward(c, dir, plain, 5 + bl);
		return;
	}
	memcpy(plain, rec_in, len);
	int k = 1 + (int)rng_below(&r, 4);
	for (int i = 0; i < k; i++) plain[5 + rng_below(&r, (uint32_t)(len - 5))] ^= (uint8_t)(1u << rng_below(&r, 8));
	snprintf(what, 96, "raw_flips_x%d", k);
	g_byz_fired++;
	net_forward(c, dir, plain, len);
}

/* ----------------------------------------------------------- generation */
static struct { uint64_t key; int nrec[2]; int big[2]; int ok; uint64_t nmalloc[2]; int fin[2]; } g_btwin;

static void byz_gen(Plan *p, uint64_t base_seed, uint64_t variant, int tier)
{
	Rng g, v;
	plan_init(p, "byz");
	p->seed = (int64_t)base_seed;
	rng_seed(&g, base_seed, 0x410);
	gen_common(p, &g, tier);
	p->interpose = 1;
	p->eagain = 0;
	gen_rounds(p, &g, tier, 1, 300);
	if (rng_chance(&g, 1, 2)) p->cred_mode |= 1;       /* certificates with an extendedKeyUsage extension */
	/* twin: how many handshake records does each direction carry? */
	if (getenv("GMSIM_GEN_NOTWIN")) return;
	uint64_t key = hash_bytes(0xb7, &p->sched_seed, 8) ^ (uint64_t)p->proto ^ ((uint64_t)p->mutual << 8) ^ ((uint64_t)p->depth << 16);
	if (g_btwin.key != key) {
		static HonestOut o;
		conn_run(p, creds_get((int)p->depth, p->proto == P_TLCP), &o, NULL, NULL);
		RunResult rr; memset(&rr, 0, sizeof(rr));
		honest_oracle(p, &o, &rr);
		g_btwin.key = key; g_btwin.ok = !rr.violated;
		g_btwin.nmalloc[0] = g_sim.nodes[0].nmalloc; g_btwin.nmalloc[1] = g_sim.nodes[1].nmalloc;
		for (int d = 0; d < 2; d++) {
			size_t best = 0;
			g_btwin.nrec[d] = 0; g_btwin.big[d] = 0; g_btwin.fin[d] = 0;
			for (int i = 0; i < o.nrecs[d]; i++) {
				if (o.recs[d][i].in_hs && i > 0 && o.recs[d][i - 1].type == TLS_record_change_cipher_spec) g_btwin.fin[d] = i;
				if (o.recs[d][i].in_hs) {
					g_btwin.nrec[d]++;
					if (o.recs[d][i].len > best) { best = o.recs[d][i].len; g_btwin.big[d] = i; }   /* the Certificate message */
				}
			}
		}
	}
	if (!g_btwin.ok) return;
	rng_seed(&v, base_seed ^ mix64(variant + 1), 0x411);
	p->victim = rng_below(&v, 2);
	int dir = p->victim == 0 ? DIR_S2C : DIR_C2S;
	int n = g_btwin.nrec[dir];
	if (n <= 0) return;
	if (variant == 15) {
		/* no byzantine peer, but the victim's allocator fails: the out-of-memory paths of the handshake and of
		 * record sending run under the sanitizers (and under the leak monitor in the C19 parts) */
		p->nfaults = 0;
		/* aim at an endpoint that allocates in this configuration, at one of the calls its fault-free twin made */
		if (!g_btwin.nmalloc[p->victim] && g_btwin.nmalloc[1 - p->victim]) p->victim = 1 - p->victim;
		uint64_t nm = g_btwin.nmalloc[p->victim];
		p->afail_node = p->victim; p->afail_at = nm ? rng_below(&v, (uint32_t)(nm > 40 ? 40 : nm)) : 0; p->afail_rest = rng_below(&v, 2);
		return;
	}
	p->nfaults = 1 + (int)rng_below(&v, 3);
	for (int i = 0; i < p->nfaults; i++) {
		Fault *f = &p->faults[i];
		memset(f, 0, sizeof(*f));
		f->kind = F_MUT; f->dir = dir;
		f->rec = rng_chance(&v, 1, 3) ? g_btwin.big[dir] : (int64_t)rng_below(&v, (uint32_t)n);
		if (g_btwin.fin[dir] > 0 && rng_chance(&v, 1, 4)) f->rec = g_btwin.fin[dir];     /* the first protected record (Finished) */
		f->a = (int64_t)(rng_u64(&v) >> 1);
	}
}

static void byz_run(const Plan *p, RunResult *r)
{
	static HonestOut o;
	g_bp = p; g_byz_fired = 0; g_byz_reenc = 0; g_byz_ccs_seen[0] = g_byz_ccs_seen[1] = 0;
	memset(g_byz_what, 0, sizeof(g_byz_what));
	rng_seed(&g_brng, (uint64_t)p->plan_seed, 0xb13);
	conn_run(p, (p->cred_mode & 1) ? creds_get_eku((int)p->depth, p->proto == P_TLCP) : creds_get((int)p->depth, p->proto == P_TLCP), &o, byz_on_record, NULL);
	r->faults_fired[F_MUT] = g_byz_fired;
	r->nontrivial = g_byz_fired > 0;
	if (p->afail_at >= 0) {
		int fired = 0;
		for (int i = 0; i < 2; i++) fired += g_sim.nodes[i].afail_fired;
		r->faults_cfg[F_AFAIL] = 1; r->faults_fired[F_AFAIL] = fired > 0;
		if (fired) r->nontrivial = 1;
	}
	uint64_t h = 0xb1 + (uint64_t)p->proto * 3 + (uint64_t)p->victim;
	for (int i = 0; i < p->nfaults; i++) h = hash_bytes(h, (int64_t[]){ p->faults[i].rec, p->faults[i].a }, 16);
	if (p->afail_at >= 0) h = hash_bytes(h, (int64_t[]){ p->afail_node, p->afail_at, p->afail_rest, p->mutual }, 32);
	r->fault_id = r->nontrivial_id = h;
	snprintf(r->extra, sizeof(r->extra), "proto=%s mutual=%d depth=%d victim=%s rec=%d mut=%s reenc=%d done=%d/%d",
		g_proto_names[p->proto], (int)p->mutual, (int)p->depth, p->victim ? "server" : "client",
		p->nfaults ? (int)p->faults[0].rec : -1, g_byz_what[0][0] ? g_byz_what[0] : "-", g_byz_reenc, o.hs_ret[0], o.hs_ret[1]);
	for (char *q = r->extra; *q; q++) if (*q == '"') *q = '\'';
	if (o.step_capped) { rr_violation(r, "no_termination", "step cap reached with a byzantine peer"); return; }
	char what[256];
	if (mon_state_violation(what, sizeof(what))) {
		rr_violation(r, "state_corrupt", "proto=%s victim=%s mutation=%s: %s", g_proto_names[p->proto], p->victim ? "server" : "client", g_byz_what[0], what);
		snprintf(r->vclass, sizeof(r->vclass), "state_corrupt:%s", strstr(what, "field=") ? strstr(what, "field=") + 6 : "?");
	}
}

const Scenario g_scn_byz = { "byz", "C06", 16, byz_gen, byz_run };

