/* C06 (scoped) — http_get's handling of the byte stream a server returns.
 * A client task calls the real http_get(); socket/connect/gethostbyname/
 * send/recv/close are simulated; a server task returns a generated response
 * (status line, headers, Content-Length variants, body shorter or longer
 * than announced, early EOF) cut into arbitrary segments.  Only byte-stream
 * variation is injected, no recv() error returns (C06 quantifies over
 * inputs).  Oracle: sanitizers, guard zones around the caller's buffer,
 * a successful return never reports more than the buffer holds. */
#define _GNU_SOURCE
#include "gmsim.h"
#include <gmssl/http.h>

extern Conn *(*g_http_connect_hook)(void);
static Conn *g_hc;
static const Plan *g_hp;
static uint8_t g_resp[70000]; static size_t g_resp_len;
static uint8_t g_body[66000]; static size_t g_body_len;
static int g_close_after;

static Conn *http_conn(void) { return g_hc; }

#define HGUARD 256
static uint8_t g_hbuf[70000 + 2 * HGUARD];
static int g_ret; static size_t g_clen, g_buflen; static int g_guard_bad;

static void http_client(void *arg)
{
	(void)arg;
	memset(g_hbuf, 0xEE, sizeof(g_hbuf));
	g_clen = (size_t)-1;
	g_ret = http_get("http://crl.sim.example:8080/ca/crl.der", g_buflen ? g_hbuf + HGUARD : NULL, &g_clen, g_buflen);
	for (size_t i = 0; i < HGUARD; i++)
		if (g_hbuf[i] != 0xEE || g_hbuf[HGUARD + g_buflen + i] != 0xEE) g_guard_bad = 1;
}

static void http_server(void *arg)
{
	(void)arg;
	uint8_t req[1024]; size_t n = 0;
	int fd = g_hc->fd[1];
	/* read the request up to the blank line */
	while (n < sizeof(req) - 1) {
		ssize_t k = net_recv(fd, req + n, sizeof(req) - 1 - n);
		if (k <= 0) break;
		n += (size_t)k; req[n] = 0;
		if (strstr((char *)req, "\r\n\r\n")) break;
	}
	size_t off = 0;
	while (off < g_resp_len) {
		ssize_t k = net_send(fd, g_resp + off, g_resp_len - off);
		if (k <= 0) break;
		off += (size_t)k;
	}
	if (g_close_after) net_close_end(g_hc, 1);
	else {
		/* keep the connection open until the client closes */
		uint8_t tmp[64];
		while (net_recv(fd, tmp, sizeof(tmp)) > 0) ;
		net_close_end(g_hc, 1);
	}
}

static void http_gen(Plan *p, uint64_t base_seed, uint64_t variant, int tier)
{
	Rng g;
	(void)variant; (void)tier;
	plan_init(p, "http");
	p->seed = (int64_t)base_seed;
	rng_seed(&g, base_seed, 0x430);
	gen_common(p, &g, tier);
	p->eagain = 0; p->capacity = 0; p->short_write = 0;
	if (rng_chance(&g, 1, 2)) { p->seg_style = 0; p->max_lat_ns = 0; }       /* header arrives in one piece half of the time */
	p->plan_seed = (int64_t)(rng_u64(&g) >> 1);
	p->op = 1;
}

static void build_response(Rng *r)
{
	static const char *status[] = { "HTTP/1.1 200 OK\r\n", "HTTP/1.1 200 OK\r\n", "HTTP/1.1 200 OK\r\n", "HTTP/1.1 200 OK\r\n", "HTTP/1.1 200 OK\r\n", "HTTP/1.0 200 OK\r\n", "HTTP/1.1 404 Not Found\r\n", "HTTP/1.1 200 OK\n", "" };
	static const int64_t lens[] = { 0, 1, 2, 100, 1000, 1023, 1024, 1025, 4096, 65535, 65536, 2147483647LL, 2147483648LL, 4294967296LL, -1, -5 };
	char hdr[2048]; size_t h = 0;
	g_body_len = (size_t[]){ 0, 1, 10, 500, 900, 1100, 5000, 20000, 65000 }[rng_below(r, 9)];
	rng_bytes(r, g_body, g_body_len);
	int64_t announce = (int64_t)g_body_len;
	int mode = (int)rng_below(r, 10);
	if (mode == 0) announce = lens[rng_below(r, 16)];
	else if (mode == 1) announce = (int64_t)g_body_len + 1 + (int64_t)rng_below(r, 3000);     /* body shorter than announced */
	else if (mode == 2 && g_body_len) announce = (int64_t)rng_below(r, (uint32_t)g_body_len);  /* body longer than announced */
	h += (size_t)snprintf(hdr + h, sizeof(hdr) - h, "%s", status[rng_below(r, 9)]);
	int nh = (int)rng_below(r, 5);
	for (int i = 0; i < nh; i++) h += (size_t)snprintf(hdr + h, sizeof(hdr) - h, "X-Pad-%d: %0*d\r\n", i, (int)rng_below(r, 300) + 1, 7);
	if (mode != 3) {
		if (mode == 4) h += (size_t)snprintf(hdr + h, sizeof(hdr) - h, "Content-Length: abc\r\n");
		else if (mode == 5) h += (size_t)snprintf(hdr + h, sizeof(hdr) - h, "content-length: %lld\r\n", (long long)announce);
		else h += (size_t)snprintf(hdr + h, sizeof(hdr) - h, "Content-Length: %lld\r\n", (long long)announce);
	}
	if (rng_chance(r, 1, 2)) h += (size_t)snprintf(hdr + h, sizeof(hdr) - h, "Content-Type: application/pkix-crl\r\n");
	if (mode != 6) h += (size_t)snprintf(hdr + h, sizeof(hdr) - h, "\r\n");       /* mode 6: header never terminated */
	memcpy(g_resp, hdr, h);
	memcpy(g_resp + h, g_body, g_body_len);
	g_resp_len = h + g_body_len;
	if (mode == 7) g_resp_len = rng_below(r, (uint32_t)g_resp_len + 1);           /* stream cut anywhere */
	g_close_after = mode == 1 || mode == 7 || mode == 6 || rng_chance(r, 1, 2);
	g_buflen = (size_t[]){ 0, 1, 100, 1000, 5000, 20000, 65000, 70000 }[rng_below(r, 8)];
	if (rng_chance(r, 1, 4)) g_buflen = g_body_len;
}

static void http_run(const Plan *p, RunResult *r)
{
	Rng g;
	arena_begin();
	sim_apply_plan(p);
	net_reset(); mon_reset(); cap_reset();
	NetKnobs k; memset(&k, 0, sizeof(k));
	k.seg_style = (int)p->seg_style; k.max_chunk = (int)p->max_chunk; k.max_lat_ns = p->max_lat_ns;
	g_hc = net_conn_new(&k, (uint64_t)p->net_seed);
	g_hp = p;
	rng_seed(&g, (uint64_t)p->plan_seed, 0x431);
	build_response(&g);
	g_guard_bad = 0;
	g_http_connect_hook = http_conn;
	g_sim.next_event = net_next_event;
	g_sim.on_quiesce = quiesce_handler;      /* a stalled exchange ends with EOF (0), never with a recv error */
	sim_spawn("http_client", 0, http_client, NULL);
	sim_spawn("http_server", 1, http_server, NULL);
	sim_run();
	g_http_connect_hook = NULL;
	arena_end();
	r->nontrivial = 1;
	r->nontrivial_id = hash_bytes(0x477, g_resp, g_resp_len < 4096 ? g_resp_len : 4096) ^ g_buflen;
	snprintf(r->extra, sizeof(r->extra), "proto=http mutual=0 depth=0 ret=%d resp=%zu body=%zu buflen=%zu clen=%zu", g_ret, g_resp_len, g_body_len, g_buflen, g_clen);
	if (g_sim.step_capped) { rr_violation(r, "no_termination", "step cap in http_get"); return; }
	if (g_guard_bad) { rr_violation(r, "state_corrupt:http_buffer_guard", "http_get wrote outside the caller's buffer of %zu bytes", g_buflen); return; }
	if (g_ret == 1 && g_clen > g_buflen) { rr_violation(r, "state_corrupt:http_length", "http_get returned 1 with contentlen %zu > buflen %zu", g_clen, g_buflen); return; }
}

const Scenario g_scn_http = { "http", "C06", 1, http_gen, http_run };
