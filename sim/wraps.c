/* Link-time seams: send/recv/usleep/time/getentropy/close (+ stdout/stderr
 * capture).  The library calls these through -Wl,--wrap. */
#define _GNU_SOURCE
#include "sim.h"
#include <unistd.h>
#include <fcntl.h>
#ifdef GMSIM_MSAN
#include <sanitizer/msan_interface.h>
#endif
#include <sys/mman.h>
#include <sys/stat.h>
#include <time.h>

/* -------------------------------------------------------------- capture */
int g_capfd[2] = { -1, -1 };
static uint8_t *g_capbuf[2];
static size_t g_capbuf_alloc[2];

void cap_init(void)
{
	int real_out = dup(1);
	if (real_out < 0) die("dup");
	fcntl(real_out, F_SETFD, FD_CLOEXEC);
	g_out = fdopen(real_out, "w");
	setvbuf(g_out, NULL, _IOLBF, 0);
	for (int ch = 0; ch < 2; ch++) {
		int fd = -1;
		/* gcc's UBSan writes its report to fd 2 whatever log_path says, and then kills the process: when the parent
		 * asks for it (GMSIM_STDERR_CAP=<prefix>), stderr is captured in a file the parent can still read afterwards */
		const char *pre = ch == 1 ? getenv("GMSIM_STDERR_CAP") : NULL;
		if (pre) {
			char path[512];
			snprintf(path, sizeof(path), "%s.%d", pre, (int)getpid());
			fd = open(path, O_RDWR | O_CREAT | O_TRUNC | O_CLOEXEC, 0600);
		}
		if (fd < 0) fd = memfd_create(ch ? "cap_stderr" : "cap_stdout", 0);
		if (fd < 0) die("memfd_create");
		g_capfd[ch] = fd;
		if (dup2(fd, ch + 1) < 0) die("dup2");
	}
	setvbuf(stdout, NULL, _IOFBF, 1 << 16);
	setvbuf(stderr, NULL, _IONBF, 0);
}

void cap_reset(void)
{
	fflush(stdout);
	for (int ch = 0; ch < 2; ch++) {
		if (g_capfd[ch] < 0) continue;
		if (ftruncate(g_capfd[ch], 0) != 0) die("ftruncate");
		lseek(ch + 1, 0, SEEK_SET);
	}
}

size_t cap_size(int ch)
{
	struct stat st;
	if (g_capfd[ch] < 0 || fstat(g_capfd[ch], &st) != 0) return 0;
	return (size_t)st.st_size;
}

const uint8_t *cap_map(int ch, size_t *len)
{
	size_t n = cap_size(ch);
	if (n + 1 > g_capbuf_alloc[ch]) {
		g_capbuf_alloc[ch] = (n + 1) * 2 + 4096;
		g_capbuf[ch] = persistent_realloc(g_capbuf[ch], g_capbuf_alloc[ch]);
		if (!g_capbuf[ch]) die("oom");
	}
	ssize_t r = n ? pread(g_capfd[ch], g_capbuf[ch], n, 0) : 0;
	if (r < 0) r = 0;
	g_capbuf[ch][r] = 0;
	*len = (size_t)r;
	return g_capbuf[ch];
}

/* ---------------------------------------------------------------- wraps */
ssize_t __wrap_send(int fd, const void *buf, size_t len, int flags)
{
	if (t_task < 0 || !net_is_simfd(fd)) return __real_send(fd, buf, len, flags);
#ifdef GMSIM_MSAN
	/* every byte an endpoint puts on the wire must have been written by someone: stale stack or heap bytes in a
	 * message are both an information leak and "output that depends on unfilled randomness" */
	__msan_check_mem_is_initialized(buf, len);
#endif
	return net_send(fd, buf, len);
}

ssize_t __wrap_recv(int fd, void *buf, size_t len, int flags)
{
	if (t_task < 0 || !net_is_simfd(fd)) return __real_recv(fd, buf, len, flags);
	return net_recv(fd, buf, len);
}

int __wrap_usleep(unsigned usec)
{
	if (t_task < 0) return 0;
	sim_retry_wait((int64_t)usec * 1000);
	return 0;
}

time_t __wrap_time(time_t *out)
{
	time_t t;
	if (t_task < 0) {
		t = (time_t)SIM_T0;
	} else {
		Task *me = sim_cur();
		Node *n = &g_sim.nodes[me->node];
		t = (time_t)sim_node_time(me->node);
		if (n->ntimelog < SIM_MAX_TIMELOG) n->timelog[n->ntimelog++] = (int64_t)t;
		sim_yield(EV_TIME, (int64_t)t, 0);
	}
	if (out) *out = t;
	return t;
}

static Rng g_ambient_ent;
static int g_ambient_init;
void sim_ambient_entropy_seed(uint64_t seed)
{
	rng_seed(&g_ambient_ent, seed, 0xa3b1e47);
	g_ambient_init = 1;
}

/* Allocator seam: libgmssl is compiled with -Dmalloc=gmsim_lib_malloc (build.py), so exactly the library's own
 * allocations come through here; harness and libc-internal allocations do not.  Counted per node, so the index of
 * a failing call does not depend on the interleaving. */
void *gmsim_lib_malloc(size_t n)
{
	if (t_task >= 0) {
		Node *nd = &g_sim.nodes[sim_cur()->node];
		int64_t idx = (int64_t)nd->nmalloc++;
		if (nd->afail_at >= 0 && (idx == nd->afail_at || (nd->afail_rest && idx > nd->afail_at))) {
			nd->afail_fired++;
			sim_trace(EV_NOTE, 0xa11c, idx);
			errno = ENOMEM;
			return NULL;
		}
	}
	return malloc(n);
}

int g_setup_node = -1;
int __wrap_getentropy(void *buf, size_t len)
{
	if (t_task < 0 && g_setup_node >= 0) {
		/* entropy an endpoint draws while it is being set up (context setters, tls_init) comes from that endpoint's
		 * own stream: same stream, same bytes — whether an implementation draws early or during the handshake */
		rng_bytes(&g_sim.nodes[g_setup_node].ent, buf, len);
		return 0;
	}
	if (t_task < 0) {
		if (!g_ambient_init) sim_ambient_entropy_seed(1);
		rng_bytes(&g_ambient_ent, buf, len);
		return 0;
	}
	Task *me = sim_cur();
	Node *n = &g_sim.nodes[me->node];
	uint64_t idx = n->draws++;
	int fail = 0;
	if (n->ndrawlog < 512) n->drawlen[n->ndrawlog++] = (uint16_t)len;
	if (n->efail_at >= 0 &&
	    ((int64_t)idx == n->efail_at || (n->efail_rest && (int64_t)idx > n->efail_at))) {
		fail = 1;
		if (!n->efail_fired) {
			n->efail_fired = 1;
			n->efail_step = g_sim.step;
			n->efail_len = len;
		}
	}
	if (fail) {
		/* the stream position still advances so that later draws are the
		 * same bytes as in the fault-free twin */
		uint8_t tmp[256];
		rng_bytes(&n->ent, tmp, len > sizeof(tmp) ? sizeof(tmp) : len);
		sim_yield(EV_ENT, (int64_t)len, -1);
		if (n->efail_errno) errno = n->efail_errno;
		return -1;
	}
	if (n->efail_fired && !n->efail_next_seen) { n->efail_next_seen = 1; n->efail_retried = len == n->efail_len; n->efail_next_ok_step = g_sim.step ? g_sim.step : 1; }
	rng_bytes(&n->ent, buf, len);
	n->ent_bytes += len;
	if (n->ndrawbytes < 160 && len <= 48) {
		memcpy(n->drawbytes[n->ndrawbytes], buf, len);
		n->drawbytes_len[n->ndrawbytes++] = (uint8_t)len;
	}
	if (n->eburst_at >= 0 && (int64_t)idx >= n->eburst_at && (int64_t)idx < n->eburst_at + n->eburst_k) {
		if (n->eburst_val < 256) memset(buf, n->eburst_val, len);
		else {
			/* boundary values of rejection sampling: the SM2 group order n and n-1, as 64-bit little-endian limbs
			 * (the layout a scalar is drawn in) or as a big-endian number; the pattern repeats over longer draws */
			static const uint8_t n_be[32] = {
				0xFF,0xFF,0xFF,0xFE,0xFF,0xFF,0xFF,0xFF,0xFF,0xFF,0xFF,0xFF,0xFF,0xFF,0xFF,0xFF,
				0x72,0x03,0xDF,0x6B,0x21,0xC6,0x05,0x2B,0x53,0xBB,0xF4,0x09,0x39,0xD5,0x41,0x23 };
			uint8_t pat[32];
			int v = n->eburst_val - 256;
			memcpy(pat, n_be, 32);
			if (v & 1) pat[31] -= 1;                                   /* n-1 */
			if (!(v & 2)) for (int b = 0; b < 16; b++) { uint8_t t = pat[b]; pat[b] = pat[31 - b]; pat[31 - b] = t; }   /* limbs */
			for (size_t b = 0; b < len; b++) ((uint8_t *)buf)[b] = pat[b % 32];
		}
		n->eburst_fired++;
		g_sim.probes[PR_EBURST]++;
	}
	sim_yield(EV_ENT, (int64_t)len, (int64_t)idx);
	return 0;
}

int __wrap_close(int fd)
{
	int side;
	Conn *c = (t_task >= 0) ? net_lookup(fd, &side) : NULL;
	if (c) {
		sim_trace(EV_CLOSE, c->id, side);
		net_close_end(c, side);
		return 0;      /* the descriptor itself is owned by the harness */
	}
	return __real_close(fd);
}

/* ------------------------------------------------------------ run arena */
/* In the uninstrumented build every allocation made while a simulated run is
 * in progress comes from a bump arena that is reset and pattern-filled before
 * each run.  Heap addresses and heap garbage are then identical in every run
 * of a plan, in a long-lived worker and in a fresh replay process, so library
 * paths that read uninitialised memory (stale pointers included) replay. */
#ifdef GMSIM_ARENA
void *__real_malloc(size_t);
void __real_free(void *);
void *__real_calloc(size_t, size_t);
void *__real_realloc(void *, size_t);

#define ARENA_SIZE (24u << 20)
static uint8_t g_arena[ARENA_SIZE] __attribute__((aligned(64)));
static size_t g_arena_used, g_arena_high;
static int g_arena_on;

void arena_begin(void)
{
	if (g_arena_high) memset(g_arena, 0xBE, g_arena_high);
	g_arena_used = 0;
	g_arena_on = 1;
}
void arena_end(void)
{
	if (g_arena_used > g_arena_high) g_arena_high = g_arena_used;
	g_arena_on = 0;
}
static int in_arena(const void *p) { return (const uint8_t *)p >= g_arena && (const uint8_t *)p < g_arena + ARENA_SIZE; }

static void *arena_alloc(size_t n)
{
	size_t need = ((n + 15) & ~(size_t)15) + 16;
	if (g_arena_used + need > ARENA_SIZE) return NULL;
	uint8_t *p = g_arena + g_arena_used;
	g_arena_used += need;
	if (g_arena_used > g_arena_high) g_arena_high = g_arena_used;
	*(size_t *)p = n;
	return p + 16;
}
void *__wrap_malloc(size_t n)
{
	if (g_arena_on) { void *p = arena_alloc(n); if (p) return p; }
	return __real_malloc(n);
}
void *__wrap_calloc(size_t a, size_t b)
{
	if (g_arena_on && (b == 0 || a <= (size_t)-1 / b)) {
		void *p = arena_alloc(a * b);
		if (p) { memset(p, 0, a * b); return p; }
	}
	return __real_calloc(a, b);
}
void *__wrap_realloc(void *old, size_t n)
{
	if (old && in_arena(old)) {
		size_t on = *(size_t *)((uint8_t *)old - 16);
		void *p = g_arena_on ? arena_alloc(n) : NULL;
		if (!p) p = __real_malloc(n);
		if (p) memcpy(p, old, on < n ? on : n);
		return p;
	}
	if (!old && g_arena_on) { void *p = arena_alloc(n); if (p) return p; }
	return __real_realloc(old, n);
}
void __wrap_free(void *p)
{
	if (!p) return;
	if (in_arena(p)) { memset(p, 0x55, *(size_t *)((uint8_t *)p - 16)); return; }
	__real_free(p);
}
void *persistent_realloc(void *p, size_t n) { return __real_realloc(p, n); }
#else
void arena_begin(void) { }
void arena_end(void) { }
void *persistent_realloc(void *p, size_t n) { return realloc(p, n); }
#endif

/* ----------------------------------------------- function-entry preemption */
int g_preempt_on;
int64_t g_preempt_mean = 50;
uint64_t g_hook_calls, g_hook_yields;
static int64_t g_countdown;
static int g_lowprio;

#ifdef GMSIM_HOOKED
void __cyg_profile_func_enter(void *fn, void *site) __attribute__((no_instrument_function));
void __cyg_profile_func_exit(void *fn, void *site) __attribute__((no_instrument_function));

void __cyg_profile_func_enter(void *fn, void *site)
{
	(void)fn; (void)site;
	if (!g_preempt_on || g_sim.cur < 0) return;
	g_hook_calls++;
	if (--g_countdown > 0) return;
	g_countdown = 1 + (int64_t)rng_below(&g_sim.sched, (uint32_t)(2 * g_preempt_mean));
	g_hook_yields++;
	if (g_sim.pct > 0) {
		/* PCT change point: the running task drops below everybody else */
		Task *me = sim_cur();
		if (g_sim.pct_left > 0) { g_sim.pct_left--; me->prio = --g_lowprio; }
	}
	sim_yield(EV_HOOK, (int64_t)g_hook_calls, 0);
}
void __cyg_profile_func_exit(void *fn, void *site) { (void)fn; (void)site; }
#endif

void preempt_reset(int pct_d)
{
	g_hook_calls = g_hook_yields = 0;      /* part of the trace: must start from 0 in every run */
	g_countdown = 1;
	g_lowprio = 0;
	g_sim.pct_left = pct_d;
}

/* ------------------------------------------------ seams used by http_get */
#include <netdb.h>
#include <sys/socket.h>
#include <netinet/in.h>
struct hostent *__real_gethostbyname(const char *name);
int __real_socket(int d, int t, int p);
int __real_connect(int fd, const struct sockaddr *a, socklen_t l);
Conn *(*g_http_connect_hook)(void);     /* scenario provides the connection a socket() call gets */

struct hostent *__wrap_gethostbyname(const char *name)
{
	static struct hostent he; static char *addrs[2]; static struct in_addr ia; static char hname[130];
	if (t_task < 0 || !g_http_connect_hook) return __real_gethostbyname(name);
	snprintf(hname, sizeof(hname), "%s", name);
	ia.s_addr = htonl(0x0a000001);
	addrs[0] = (char *)&ia; addrs[1] = NULL;
	he.h_name = hname; he.h_aliases = NULL; he.h_addrtype = AF_INET; he.h_length = 4; he.h_addr_list = addrs;
	sim_yield(EV_NOTE, 1, 0);
	return &he;
}
int __wrap_socket(int d, int t, int p)
{
	if (t_task < 0 || !g_http_connect_hook) return __real_socket(d, t, p);
	Conn *c = g_http_connect_hook();
	sim_yield(EV_NOTE, 2, 0);
	return c ? c->fd[0] : -1;
}
int __wrap_connect(int fd, const struct sockaddr *a, socklen_t l)
{
	if (t_task < 0 || !net_is_simfd(fd)) return __real_connect(fd, a, l);
	sim_yield(EV_NOTE, 3, 0);
	return 0;
}
