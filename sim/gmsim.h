/* Harness-level types on top of the simulator core: plans, credentials,
 * TLS endpoints, scenarios. */
#ifndef GMSIM_APP_H
#define GMSIM_APP_H

#include "sim.h"
#include <gmssl/tls.h>
#include <gmssl/x509.h>
#include <gmssl/sm2.h>
#include <gmssl/sm3.h>
#include <gmssl/sm4.h>
#include <gmssl/rand.h>
#include <gmssl/error.h>

enum { P_TLCP = 0, P_TLS12 = 1, P_TLS13 = 2 };
extern const char *g_proto_names[3];
int proto_const(int p);

void sim_ambient_entropy_seed(uint64_t seed);

/* ---------------------------------------------------------------- creds */
#define MAX_CHAIN 2048
typedef struct CertSpec {
	const char *cn;
	int bc;                 /* 0: no basicConstraints, 1: cA=TRUE, 2: cA=FALSE */
	int pathlen;            /* -1 none */
	int key_usage;          /* bits, 0 = no keyUsage ext */
	int64_t not_before, not_after;
	int eku;                /* 0: no extendedKeyUsage, 1: serverAuth, 2: clientAuth */
	int v1;                 /* 1: an X.509 v1 certificate (no version field, no extensions) */
	int pad;                /* > 0: a subjectAltName extension with this many characters of DNS names (size knob) */
} CertSpec;

typedef struct Ident {      /* a key and its certificate */
	SM2_KEY key;
	uint8_t cert[2100]; size_t certlen;
	uint8_t name[256]; size_t namelen;
} Ident;

typedef struct CredSet {
	int depth, tlcp;
	Ident root, sub[2];     /* sub[0] issues leaves; sub[1] issues sub[0] (depth 3) */
	Ident srv_sign, srv_enc, cli_sign;
	uint8_t trust[MAX_CHAIN]; size_t trust_len;            /* root only */
	uint8_t srv_chain[MAX_CHAIN + 1024]; size_t srv_chain_len;
	uint8_t cli_chain[MAX_CHAIN + 1024]; size_t cli_chain_len;
	int ok;
} CredSet;

typedef struct CredOpts {          /* one deliberate defect in what the prover presents */
	int prover;                    /* 0: server chain is defective, 1: client chain */
	int64_t leaf_nb, leaf_na;      /* validity of the prover's leaf(s); 0 = default */
	int64_t sub_nb[2], sub_na[2];  /* validity of intermediates; 0 = default */
	int sub_bc[2];                 /* -1 default, else CertSpec.bc value for that intermediate */
	int sub_pathlen[2];            /* -2 default */
	int sub_ku[2];                 /* -1 default, else keyUsage bits */
	int foreign_root;              /* 1: chain hangs under another key with the trusted root's name; 2: other name */
	int root_in_chain;             /* the (foreign) root certificate itself is appended to the chain the prover sends */
	int issuer_is_leaf;            /* leaf issued by an end-entity certificate inserted as "CA" */
	int issuer_below_v1;           /* leaf <- self-made v3 CA (pathLen 0) <- X.509 v1 end-entity certificate <- genuine issuer */
	int enc_foreign;               /* TLCP: encryption certificate issued by a foreign CA */
} CredOpts;
void credopts_init(CredOpts *o, int prover);
int creds_derive(const CredSet *good, const CredOpts *o, CredSet *out);

int creds_issue(const CertSpec *spec, const SM2_KEY *subject_key,
	const Ident *issuer /* NULL = self-signed */, Ident *out);
int creds_make_name(const char *cn, uint8_t *name, size_t *namelen);
int creds_build(CredSet *cs, int depth, int tlcp);
const CredSet *creds_get(int depth, int tlcp);          /* cached, honest */
const CredSet *creds_get_eku(int depth, int tlcp);
const CredSet *creds_get_bigclient(int depth, int tlcp);  /* client leaf larger than the server's whole chain */
const CredSet *creds_get_max(int depth, int tlcp, int delta);   /* both chains are exactly TLS_MAX_CERTIFICATES_SIZE - delta bytes; NULL if that size cannot be hit */      /* same shape; leaves carry extendedKeyUsage serverAuth / clientAuth */
extern int g_junk_sig_node, g_junk_sig_form, g_junk_sig_fired; extern uint64_t g_junk_sig_seed;   /* creds.c: prover whose signatures are junk */
size_t creds_extra_roots(int n, uint8_t *out, size_t cap);   /* n unrelated self-signed roots (cached) */
void creds_chain(const CredSet *cs, int server, uint8_t *out, size_t *outlen);

/* ----------------------------------------------------------------- plan */
#define MAX_ROUNDS 16
#define MAX_FAULTS 8

enum { RM_C2S = 0, RM_S2C = 1, RM_DUPLEX = 2, RM_C2S_ACKED = 3, RM_S2C_ACKED = 4 };

typedef struct Round {
	int mode;
	int64_t n[2];          /* bytes written per direction (0 if that direction idle) */
	int64_t wchunk[2];     /* write-call size per direction, 0 = everything in one call */
	int64_t rbuf_max[2];   /* reader buffer sizes are drawn in 1..rbuf_max */
	int64_t ack_every, ack_size;   /* ACKED modes: the reader writes ack_size bytes back each time ack_every more bytes arrived,
	                                  also while part of a record is still buffered (allowed by the TLS 1.3 API) */
} Round;

enum {
	F_NONE = 0, F_FLIP, F_DROP, F_DUP, F_SWAP, F_REPLAY, F_TRUNC, F_EXTEND,
	F_INJECT, F_MUT, F_EVIL, F_CRASH, F_AFAIL, F_NKINDS
};
extern const char *g_fault_names[F_NKINDS];

typedef struct Fault {
	int kind, dir;
	int64_t rec;           /* index of the targeted record in the sender's stream */
	int64_t off, bit;      /* FLIP: byte offset in the whole record (header = 0..4), bit 0..7 */
	int64_t a, b, c;       /* kind-specific */
	int fired;
} Fault;

typedef struct Plan {
	char scenario[16];
	int64_t seed;          /* run seed it was generated from (informational) */
	int64_t proto, mutual, depth, cred_mode;
	int64_t sched_seed, net_seed, ent_c, ent_s, plan_seed;
	int64_t stay_num, stay_den;
	int64_t seg_style, max_chunk, max_lat_ns, short_write, eagain, capacity;
	int64_t seg_late;
	int64_t skew_c, skew_s;
	int64_t jump_node, jump_at_ns, jump_delta_s;
	int64_t interpose;
	int64_t closer;        /* 0 client closes, 1 server closes */
	/* auth */
	int64_t defect, defect_role, defect_arg;
	/* entropy */
	int64_t op, op_count, efail_node, efail_at, efail_rest, efail_errno, eburst_at, eburst_k, eburst_val;
	int64_t afail_node, afail_at, afail_rest;   /* library malloc call afail_at of node afail_node (-2: of every node) returns NULL */
	/* threads */
	int64_t ntasks, preempt_mean, pct_d;
	/* byz */
	int64_t victim;
	int64_t early_close;   /* the closing side calls tls_shutdown / close without reading the last inbound round */
	int64_t tz;            /* process time zone during the run: 0 unset, 1 UTC, 2 CST-8, 3 PST8, 4 <+0530>-5:30 */
	int64_t extra_roots;   /* unrelated additional trust anchors configured next to the real one */
	int nrounds; Round rounds[MAX_ROUNDS];
	int nfaults; Fault faults[MAX_FAULTS];
} Plan;

void plan_init(Plan *p, const char *scenario);
void plan_print(FILE *f, const Plan *p);
int  plan_parse(FILE *f, Plan *p);
char *plan_to_string(const Plan *p);     /* malloc'd */

/* ------------------------------------------------------------- endpoint */
typedef struct KeySnap {
	int valid;
	int protocol, cipher_suite;
	uint8_t master_secret[48], key_block[96];
	uint8_t cw_iv[12], sw_iv[12];
	uint8_t cw_key[sizeof(BLOCK_CIPHER_KEY)], sw_key[sizeof(BLOCK_CIPHER_KEY)];
	uint8_t cseq[8], sseq[8];
} KeySnap;

typedef struct Endpoint {
	int side;               /* 0 client, 1 server */
	int node, task;
	Conn *c;
	TLS_CTX ctx;
	struct Endpoint *ctx_of;        /* set: this endpoint's connection was initialised from that endpoint's ctx */
	TLS_CONNECT *conn;
	const Plan *plan;
	int hs_ret, hs_returned;
	uint64_t hs_done_step;
	int64_t hs_done_now;
	KeySnap keys;
	/* data phase bookkeeping */
	uint64_t wrote[2], got[2];      /* indexed by direction */
	int io_err;                      /* first unexpected API result */
	char io_err_what[128];
	int eof_seen, eof_ret;
	int data_after_fail;            /* recv returned application bytes though it must not */
	int recv_errs;                  /* recv calls that returned an error (not EOF, not EAGAIN) */
	int odd_sent;                   /* protected records of another inner type this endpoint sent between its writes (cred_mode 512) */
	uint64_t first_err_at; int first_err_at_set, first_err_ret;
	uint64_t got_after_err;         /* genuine in-order bytes delivered after an error return */
	uint64_t rd_calls, wr_calls;
	int finished;
	Rng rbuf;
	size_t rd_at_done;              /* bytes of the incoming pipe consumed when the handshake returned */
	/* app record map: k-th application record this endpoint sent */
	struct { int rec; uint64_t start; uint32_t len; } recmap[MAX_REC];
	int nrecmap;
	int refused_sends;             /* probe sends attempted while received data was still buffered */
	int send_retries;              /* writes repeated after a send that failed on the plan's single entropy failure */
	uint64_t draws_at_done, draws_at_data_end;   /* entropy draws of this endpoint's node when the handshake returned / when the last round ended */
} Endpoint;

extern Endpoint g_ep[2 * NET_MAX_CONN];
int ep_setup_same_ctx(Endpoint *ep, Endpoint *first, Conn *c);
int ctx_setup_from_files(TLS_CTX *ctx, Rng *rng, const uint8_t *chain, size_t chainlen, const SM2_KEY *sign, const SM2_KEY *kenc,
	const uint8_t *ca, size_t calen, int depth);

uint8_t payload_byte(int dir, uint64_t i);
void payload_fill(int dir, uint64_t off, uint8_t *buf, size_t n);
int  ep_setup(Endpoint *ep, int side, Conn *c, const Plan *p, const CredSet *cs, int node);
void ep_task(void *arg);          /* handshake + data rounds + close */
void ep_free(Endpoint *ep);
void ep_drain_after_failure(Endpoint *ep, int max_calls);
int  ep_send(Endpoint *ep, const uint8_t *buf, size_t len, size_t *sent);
int  ep_recv(Endpoint *ep, uint8_t *buf, size_t len, size_t *got);
void keysnap_take(KeySnap *k, const TLS_CONNECT *conn);
int  keysnap_equal(const KeySnap *a, const KeySnap *b, int proto, char *why, size_t whylen);

/* ------------------------------------------------------------ scenarios */
typedef struct RunResult {
	int violated;
	int known;
	char vclass[128];        /* violation class (stable key) */
	char detail[512];
	uint64_t fp, ileave, fault_id;
	int faults_cfg[F_NKINDS], faults_fired[F_NKINDS];
	int nontrivial;          /* counts towards distinct_nontrivial */
	uint64_t nontrivial_id;
	int twin_failed;         /* the fault-free twin did not pass: run not counted */
	uint64_t steps, switches;
	int64_t sim_ns;
	char extra[512];         /* scenario specific key=value list for evidence */
} RunResult;

typedef struct Scenario {
	const char *name;
	const char *property;
	int variants_per_base;   /* consecutive indices share one base plan (and its fault-free twin) */
	void (*gen)(Plan *p, uint64_t base_seed, uint64_t variant, int tier);
	void (*run)(const Plan *p, RunResult *r);
} Scenario;

extern const Scenario g_scenarios[];
const Scenario *scenario_find(const char *name);

void rr_violation(RunResult *r, const char *vclass, const char *fmt, ...)
	__attribute__((format(printf, 3, 4)));

/* common building blocks used by several scenarios */
void gen_common(Plan *p, Rng *g, int tier);
void gen_rounds(Plan *p, Rng *g, int tier, int max_rounds, int64_t max_bytes);
void sim_apply_plan(const Plan *p);         /* sim_reset + knobs + node clocks/entropy */

typedef struct HonestOut {
	int hs_ret[2];
	int both_done;
	KeySnap keys[2];
	uint64_t wrote[2], got[2];
	int io_err[2]; char io_err_what[2][128];
	int eof_ok;
	int data_after_fail[2];
	int recv_errs[2], odd_sent[2];
	uint64_t got_after_err[2];
	uint64_t hs_done_step[2];
	int nrecs[2];
	RecInfo recs[2][MAX_REC];
	uint64_t sent_len[2];
	size_t rd_at_done[2];           /* per endpoint side */
	int nrecmap[2];                 /* per direction */
	uint64_t draws_at_done[2], draws_at_data_end[2];   /* per side */
	struct { int rec; uint64_t start; uint32_t len; } recmap[2][MAX_REC];
	int finished[2];
	int step_capped, quiesced;
	int setup_refused;              /* tls_init / tls_set_socket refused the configuration */
	int hs_stream_tampered[2];      /* per direction: the bytes the receiver consumed during its handshake differ from what the sender sent */
} HonestOut;

/* run one client/server connection per plan (faults included) and collect what happened */
void conn_run(const Plan *p, const CredSet *cs, HonestOut *out,
	void (*on_record)(Conn *, int, int, const uint8_t *, size_t),
	void (*pre_run)(Endpoint *cl, Endpoint *sv));

extern int (*g_quiesce_hook)(void);
int quiesce_handler(void);     /* releases held traffic, then closes every connection once (peer timeout) */
void honest_oracle(const Plan *p, const HonestOut *o, RunResult *r);

/* monitors */
void mon_reset(void);
void mon_on_switch(int task);
int  mon_state_violation(char *what, size_t n);
void leak_reset(void);
void leak_add_secret(const char *kind, const uint8_t *p, size_t n);
void leak_scan_now(int task);
int  leak_found(char *what, size_t n);
void leak_collect_conn(const TLS_CONNECT *conn);
void leak_deep_collect(const Plan *p);
extern int g_leak_mode;

#endif
