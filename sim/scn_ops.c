/* C19 — single-node operations that handle secrets (key generation/import,
 * sign, decrypt, ECDH, PKCS#8 open with right and wrong password, CMS open,
 * SM9 decrypt), success and failure paths, executed as a simulator task with
 * stdout/stderr captured.  The harness never asks for a print or export to a
 * stream, so nothing secret may appear on fd 1 / fd 2. */
#define _GNU_SOURCE
#include "gmsim.h"
#include <gmssl/cms.h>
#include <gmssl/oid.h>
#include <gmssl/pkcs8.h>
#include <gmssl/sm9.h>
#include <gmssl/pem.h>

static Rng g_orng;
static int g_nops_done, g_nops_failed_expected, g_unexpected;
static char g_unexpected_what[128];

static void note_secret_key(const SM2_KEY *k)
{
	uint8_t d[32];
	sm2_z256_to_bytes(k->private_key, d);
	leak_add_secret("private_key", d, 32);
}

static void unexpected(const char *what)
{
	if (!g_unexpected) snprintf(g_unexpected_what, sizeof(g_unexpected_what), "%s", what);
	g_unexpected++;
}

static void corrupt(uint8_t *buf, size_t len)
{
	if (len) buf[rng_below(&g_orng, (uint32_t)len)] ^= (uint8_t)(1u << rng_below(&g_orng, 8));
}

#include <sys/mman.h>
#include <unistd.h>

/* an in-memory file the library can open by name */
static int memfile(const char *data, size_t len, char path[64])
{
	int fd = memfd_create("gmsim_pem", 0);
	if (fd < 0) return -1;
	if (len && write(fd, data, len) != (ssize_t)len) { close(fd); return -1; }
	snprintf(path, 64, "/proc/self/fd/%d", fd);
	return fd;
}

static char *pem_of_key(const SM2_KEY *k, const char *pass, size_t *len)
{
	char *mem = NULL;
	FILE *f = open_memstream(&mem, len);
	if (!f) return NULL;
	int ret = sm2_private_key_info_encrypt_to_pem(k, pass, f);
	fclose(f);
	if (ret != 1) { free(mem); return NULL; }
	return mem;
}

static char *pem_of_chain(const uint8_t *chain, size_t chainlen, size_t *len)
{
	char *mem = NULL;
	FILE *f = open_memstream(&mem, len);
	if (!f) return NULL;
	int ret = x509_certs_to_pem(chain, chainlen, f);
	fclose(f);
	if (ret != 1) { free(mem); return NULL; }
	return mem;
}

/* context setup from PEM files, the way the command-line tools do it: right password, wrong
 * password, damaged or truncated key file */
static void op_ctx_from_files(void)
{
	static const char *sign_pass = "S1gn-key-Passw0rd-4711", *kenc_pass = "Kenc-key-Passw0rd-0815";
	const CredSet *cs = creds_get(1, 1);
	TLS_CTX ctx;
	char p_chain[64], p_sign[64], p_kenc[64], p_ca[64];
	size_t l_chain = 0, l_sign = 0, l_kenc = 0, l_ca = 0;
	int which = (int)rng_below(&g_orng, 3);           /* 0 TLCP server (two keys), 1 TLS 1.2 server, 2 TLS 1.3 client */
	int fault = (int)rng_below(&g_orng, 6);           /* 0,1 none; 2 wrong sign password; 3 wrong kenc password; 4 damaged sign key; 5 truncated kenc key */
	leak_add_secret("password", (const uint8_t *)sign_pass, strlen(sign_pass));
	leak_add_secret("password", (const uint8_t *)kenc_pass, strlen(kenc_pass));
	leak_add_secret("password", (const uint8_t *)"not the sign password", 21);
	leak_add_secret("password", (const uint8_t *)"not the kenc password", 21);
	note_secret_key(&cs->srv_sign.key); note_secret_key(&cs->srv_enc.key); note_secret_key(&cs->cli_sign.key);
	uint8_t chain[MAX_CHAIN]; size_t chainlen = 0;
	const SM2_KEY *skey = which == 2 ? &cs->cli_sign.key : &cs->srv_sign.key;
	if (which == 0) { memcpy(chain, cs->srv_chain, cs->srv_chain_len); chainlen = cs->srv_chain_len; }
	else if (which == 1) { memcpy(chain, cs->srv_sign.cert, cs->srv_sign.certlen); chainlen = cs->srv_sign.certlen; }
	else { memcpy(chain, cs->cli_chain, cs->cli_chain_len); chainlen = cs->cli_chain_len; }
	char *m_chain = pem_of_chain(chain, chainlen, &l_chain);
	char *m_ca = pem_of_chain(cs->trust, cs->trust_len, &l_ca);
	char *m_sign = pem_of_key(skey, sign_pass, &l_sign);
	char *m_kenc = pem_of_key(&cs->srv_enc.key, kenc_pass, &l_kenc);
	if (!m_chain || !m_ca || !m_sign || !m_kenc) { unexpected("pem setup"); goto done; }
	if (fault == 4 && l_sign > 120) m_sign[80 + rng_below(&g_orng, (uint32_t)(l_sign - 120))] ^= 2;
	if (fault == 5 && l_kenc > 100) l_kenc -= 40 + rng_below(&g_orng, 40);
	int f1 = memfile(m_chain, l_chain, p_chain), f2 = memfile(m_sign, l_sign, p_sign), f3 = memfile(m_kenc, l_kenc, p_kenc), f4 = memfile(m_ca, l_ca, p_ca);
	if (f1 < 0 || f2 < 0 || f3 < 0 || f4 < 0) { unexpected("memfd"); goto closefds; }
	int proto = which == 0 ? TLS_protocol_tlcp : which == 1 ? TLS_protocol_tls12 : TLS_protocol_tls13;
	if (tls_ctx_init(&ctx, proto, which == 2 ? TLS_client_mode : TLS_server_mode) != 1) { unexpected("tls_ctx_init"); goto closefds; }
	int ret;
	if (which == 0)
		ret = tls_ctx_set_tlcp_server_certificate_and_keys(&ctx, p_chain, p_sign, fault == 2 ? "not the sign password" : sign_pass,
			p_kenc, fault == 3 ? "not the kenc password" : kenc_pass);
	else
		ret = tls_ctx_set_certificate_and_key(&ctx, p_chain, p_sign, fault == 2 ? "not the sign password" : sign_pass);
	int expect_ok = fault < 2 || (which != 0 && (fault == 3 || fault == 5));
	if (expect_ok && ret != 1) unexpected("tls_ctx_set_*certificate*");
	if (!expect_ok && ret == 1 && fault != 4) unexpected("tls_ctx_set_* accepted a wrong password / damaged key");
	(void)tls_ctx_set_ca_certificates(&ctx, p_ca, TLS_DEFAULT_VERIFY_DEPTH);
	tls_ctx_cleanup(&ctx);
closefds:
	if (f1 >= 0) close(f1);
	if (f2 >= 0) close(f2);
	if (f3 >= 0) close(f3);
	if (f4 >= 0) close(f4);
done:
	free(m_chain); free(m_ca); free(m_sign); free(m_kenc);
}

static void ops_sequence(void *arg)
{
	const Plan *p = arg;
	int n = (int)(p->op_count > 0 ? p->op_count : 4);
	SM2_KEY key, key2;
	uint8_t msg[80];
	rng_bytes(&g_orng, msg, sizeof(msg));
	leak_add_secret("decrypted_plaintext", msg, sizeof(msg));
	static const char *pass = "Corr3ct-H0rse-Battery-Staple";
	leak_add_secret("password", (const uint8_t *)pass, strlen(pass));
	if (sm2_key_generate(&key) != 1 || sm2_key_generate(&key2) != 1) { unexpected("keygen"); return; }
	note_secret_key(&key); note_secret_key(&key2);

	for (int i = 0; i < n; i++) {
		int op = (int)rng_below(&g_orng, 14);
		sim_progress();
		if (op == 10 || op == 11) { g_nops_done++; op_ctx_from_files(); continue; }
		int bad = rng_chance(&g_orng, 1, 3);        /* take a failure path */
		g_nops_done++;
		switch (op) {
		case 0: { /* private key DER round trip */
			uint8_t buf[512], *w = buf; const uint8_t *r = buf; size_t len = 0; SM2_KEY k;
			if (sm2_private_key_info_to_der(&key, &w, &len) != 1) { unexpected("private_key_info_to_der"); break; }
			if (bad) corrupt(buf, len);
			const uint8_t *attrs; size_t attrslen;
			int ret = sm2_private_key_info_from_der(&k, &attrs, &attrslen, &r, &len);
			if (!bad && ret != 1) unexpected("private_key_info_from_der");
			break; }
		case 1: { /* encrypted PKCS#8 DER, right or wrong password */
			uint8_t buf[1024], *w = buf; const uint8_t *r = buf; size_t len = 0; SM2_KEY k;
			const uint8_t *attrs; size_t attrslen;
			if (sm2_private_key_info_encrypt_to_der(&key, pass, &w, &len) != 1) { unexpected("encrypt_to_der"); break; }
			int ret = sm2_private_key_info_decrypt_from_der(&k, &attrs, &attrslen, bad ? "wrong password" : pass, &r, &len);
			if (!bad && ret != 1) unexpected("decrypt_from_der");
			if (bad && ret == 1) unexpected("decrypt_from_der accepted a wrong password");
			if (bad) g_nops_failed_expected++;
			break; }
		case 2: { /* encrypted PEM through FILE* the caller designates */
			char *mem = NULL; size_t mlen = 0; SM2_KEY k;
			FILE *f = open_memstream(&mem, &mlen);
			if (!f) break;
			int ret = sm2_private_key_info_encrypt_to_pem(&key, pass, f);
			fclose(f);
			if (ret != 1) { unexpected("encrypt_to_pem"); free(mem); break; }
			if (bad && mlen > 80) mem[60 + rng_below(&g_orng, (uint32_t)(mlen - 80))] ^= 1;
			FILE *g = fmemopen(mem, mlen, "r");
			if (g) {
				ret = sm2_private_key_info_decrypt_from_pem(&k, pass, g);
				fclose(g);
				if (!bad && ret != 1) unexpected("decrypt_from_pem");
			}
			free(mem);
			break; }
		case 3: { /* sign / verify */
			uint8_t sig[SM2_MAX_SIGNATURE_SIZE]; size_t siglen = 0;
			SM2_SIGN_CTX c; SM2_VERIFY_CTX v;
			if (sm2_sign_init(&c, &key, SM2_DEFAULT_ID, SM2_DEFAULT_ID_LENGTH) != 1 || sm2_sign_update(&c, msg, sizeof(msg)) != 1
			    || sm2_sign_finish(&c, sig, &siglen) != 1) { unexpected("sign"); break; }
			if (bad) corrupt(sig, siglen);
			int ret = sm2_verify_init(&v, &key, SM2_DEFAULT_ID, SM2_DEFAULT_ID_LENGTH) == 1 && sm2_verify_update(&v, msg, sizeof(msg)) == 1
				? sm2_verify_finish(&v, sig, siglen) : -2;
			if (!bad && ret != 1) unexpected("verify");
			break; }
		case 4: { /* encrypt / decrypt, also with the wrong key or a damaged ciphertext */
			uint8_t ct[SM2_MAX_CIPHERTEXT_SIZE], pt[SM2_MAX_PLAINTEXT_SIZE]; size_t ctlen = 0, ptlen = 0;
			if (sm2_encrypt(&key, msg, sizeof(msg), ct, &ctlen) != 1) { unexpected("encrypt"); break; }
			int mode = bad ? 1 + (int)rng_below(&g_orng, 2) : 0;
			if (mode == 1) corrupt(ct, ctlen);
			int ret = sm2_decrypt(mode == 2 ? &key2 : &key, ct, ctlen, pt, &ptlen);
			if (!bad && (ret != 1 || ptlen != sizeof(msg) || memcmp(pt, msg, ptlen))) unexpected("decrypt");
			if (mode == 2 && ret == 1) unexpected("decrypt with the wrong key succeeded");
			break; }
		case 5: { /* ECDH */
			uint8_t peer[65], out[64];
			peer[0] = 4; sm2_z256_point_to_bytes(&key2.public_key, peer + 1);
			if (bad) peer[1 + rng_below(&g_orng, 64)] ^= 4;     /* off-curve point */
			int ret = sm2_ecdh(&key, peer, 65, out);
			if (!bad && ret != 1) unexpected("ecdh");
			if (ret == 1) leak_add_secret("ecdhe_shared_secret", out, 32);
			break; }
		case 6: { /* CMS envelope open */
			static uint8_t cms[4096], content[512];
			const CredSet *cs = creds_get(1, 0);
			uint8_t cek[16], iv[16]; size_t len = 0, clen = 0; int ct;
			rng_bytes(&g_orng, cek, 16); rng_bytes(&g_orng, iv, 16);
			leak_add_secret("content_key", cek, 16);
			note_secret_key(&cs->srv_sign.key);
			if (cms_envelop(cms, &len, cs->srv_sign.cert, cs->srv_sign.certlen, OID_sm4_cbc, cek, 16, iv, 16,
				OID_cms_data, msg, sizeof(msg), NULL, 0, NULL, 0) != 1) { unexpected("cms_envelop"); break; }
			if (bad) corrupt(cms + len / 2, len / 2);
			const uint8_t *ri, *s1, *s2; size_t rilen, s1len, s2len;
			/* cms_deenvelop compares the raw point structure of the key with the one parsed from the certificate, so the
			 * key must hold its public point the way a parser leaves it (observed: a freshly generated key never matches) */
			SM2_KEY rk = cs->srv_sign.key; uint8_t xy[64];
			sm2_z256_point_to_bytes(&rk.public_key, xy); sm2_z256_point_from_bytes(&rk.public_key, xy);
			int ret = cms_deenvelop(cms, len, bad == 1 && rng_chance(&g_orng, 1, 2) ? &cs->cli_sign.key : &rk,
				cs->srv_sign.cert, cs->srv_sign.certlen, &ct, content, &clen, &ri, &rilen, &s1, &s1len, &s2, &s2len);
			if (!bad && ret != 1) unexpected("cms_deenvelop");
			break; }
		case 7: { /* raw private key DER (ECPrivateKey) */
			uint8_t buf[512], *w = buf; const uint8_t *r = buf; size_t len = 0; SM2_KEY k;
			if (sm2_private_key_to_der(&key, &w, &len) != 1) { unexpected("private_key_to_der"); break; }
			if (bad) len -= 1 + rng_below(&g_orng, 8);
			int ret = sm2_private_key_from_der(&k, &r, &len);
			if (!bad && ret != 1) unexpected("private_key_from_der");
			break; }
		case 8: { /* record protection with live-looking keys */
			SM3_HMAC_CTX h; SM4_KEY ek, dk; uint8_t kb[48], out[256], dec[256]; size_t outlen = 0, declen = 0;
			uint8_t seq[8] = { 0 }, hdr[5] = { 23, 1, 1, 0, 80 };
			rng_bytes(&g_orng, kb, 48);
			leak_add_secret("mac_key", kb, 32); leak_add_secret("traffic_key", kb + 32, 16);
			sm3_hmac_init(&h, kb, 32); sm4_set_encrypt_key(&ek, kb + 32); sm4_set_decrypt_key(&dk, kb + 32);
			if (tls_cbc_encrypt(&h, &ek, seq, hdr, msg, sizeof(msg), out, &outlen) != 1) { unexpected("tls_cbc_encrypt"); break; }
			if (bad) corrupt(out, outlen);
			uint8_t eh[5] = { 23, 1, 1, (uint8_t)(outlen >> 8), (uint8_t)outlen };
			int ret = tls_cbc_decrypt(&h, &dk, seq, eh, out, outlen, dec, &declen);
			if (!bad && ret != 1) unexpected("tls_cbc_decrypt");
			break; }
		case 12: { /* SM4-CBC streaming decryption with the right key; the ciphertext may have lost or damaged its padding */
			SM4_CBC_CTX cc; uint8_t k16[16], iv[16], ct[128], pt[128]; size_t cl = 0, fl = 0, pl = 0, ql = 0, m = 1 + rng_below(&g_orng, 80);
			rng_bytes(&g_orng, k16, 16); rng_bytes(&g_orng, iv, 16);
			leak_add_secret("content_key", k16, 16);
			if (sm4_cbc_encrypt_init(&cc, k16, iv) != 1 || sm4_cbc_encrypt_update(&cc, msg, m, ct, &cl) != 1 || sm4_cbc_encrypt_finish(&cc, ct + cl, &fl) != 1) { unexpected("sm4_cbc_encrypt"); break; }
			cl += fl;
			if (bad && cl >= 32) {
				if (rng_chance(&g_orng, 1, 2)) ct[cl - 17 - rng_below(&g_orng, 2)] ^= (uint8_t)(1u << rng_below(&g_orng, 8));   /* lands in the padding of the last block */
				else cl -= 16;                                                                                              /* the padding block never arrived */
			}
			int ret = sm4_cbc_decrypt_init(&cc, k16, iv) == 1 && sm4_cbc_decrypt_update(&cc, ct, cl, pt, &pl) == 1 && sm4_cbc_decrypt_finish(&cc, pt + pl, &ql) == 1;
			if (!bad && !ret) unexpected("sm4_cbc_decrypt");
			break; }
		case 13: { /* CMS EncryptedData opened with the right key, intact or damaged in its last blocks */
			static uint8_t cms[1024], content[256];
			uint8_t k16[16], iv[16]; size_t len = 0, clen = 0, m = 1 + rng_below(&g_orng, 80); int alg, ct;
			const uint8_t *s1, *s2; size_t s1len, s2len;
			rng_bytes(&g_orng, k16, 16); rng_bytes(&g_orng, iv, 16);
			leak_add_secret("content_key", k16, 16);
			if (cms_encrypt(cms, &len, OID_sm4_cbc, k16, 16, iv, 16, OID_cms_data, msg, m, NULL, 0, NULL, 0) != 1) { unexpected("cms_encrypt"); break; }
			if (bad && len > 40) cms[len - 17 - rng_below(&g_orng, 16)] ^= (uint8_t)(1u << rng_below(&g_orng, 8));
			int ret = cms_decrypt(cms, len, &alg, k16, 16, &ct, content, &clen, &s1, &s1len, &s2, &s2len);
			if (!bad && ret != 1) unexpected("cms_decrypt");
			break; }
		default: { /* key generation + public export to a designated stream */
			SM2_KEY k; char *mem = NULL; size_t mlen = 0;
			if (sm2_key_generate(&k) != 1) { unexpected("keygen"); break; }
			note_secret_key(&k);
			FILE *f = open_memstream(&mem, &mlen);
			if (f) { sm2_public_key_info_to_pem(&k, f); fclose(f); free(mem); }
			break; }
		}
	}
}

static void ops_gen(Plan *p, uint64_t base_seed, uint64_t variant, int tier)
{
	Rng g;
	(void)variant;
	plan_init(p, "ops");
	p->seed = (int64_t)base_seed;
	rng_seed(&g, base_seed, 0x40e);
	p->sched_seed = (int64_t)(rng_u64(&g) >> 1);
	p->ent_c = (int64_t)(rng_u64(&g) >> 1);
	p->plan_seed = (int64_t)(rng_u64(&g) >> 1);
	p->op = 1;
	p->op_count = 3 + rng_below(&g, tier ? 12 : 6);
}

static void ops_run(const Plan *p, RunResult *r)
{
	arena_begin();
	sim_reset((uint64_t)p->sched_seed);
	net_reset(); mon_reset(); cap_reset();
	rng_seed(&g_sim.nodes[0].ent, (uint64_t)p->ent_c, 0xc11e);
	rng_seed(&g_orng, (uint64_t)p->plan_seed, 0x0b5);
	g_sim.on_switch = mon_on_switch;
	g_nops_done = g_nops_failed_expected = g_unexpected = 0;
	/* everything that is cached across runs is built here, outside the task, from the setup stream */
	(void)creds_get(1, 0); (void)creds_get(1, 1);
	sim_spawn("op", 0, ops_sequence, (void *)p);
	sim_run();
	mon_on_switch(-1);
	if (g_leak_mode) leak_scan_now(0);
	arena_end();
	r->nontrivial = g_nops_done > 0;
	r->nontrivial_id = hash_bytes(0x0b5, &p->plan_seed, 8);
	snprintf(r->extra, sizeof(r->extra), "proto=op mutual=0 depth=0 ops=%d unexpected=%d what=%s", g_nops_done, g_unexpected, g_unexpected ? g_unexpected_what : "-");
	/* results of the operations are not this scenario's business (C19 is about
	 * what reaches fd 1/2); unexpected ones are only counted in `extra` */
}

const Scenario g_scn_ops = { "ops", "C19", 1, ops_gen, ops_run };
