/* gmsim core: PRNG streams, tasks, seeded scheduler, simulated clock,
 * fingerprints, watchdog.  Built without sanitizers in the tsan variant. */
#define _GNU_SOURCE
#include "sim.h"
#include <stdarg.h>
#include <unistd.h>
#include <time.h>
#include <sys/mman.h>

Sim g_sim = { .cur = -1 };
FILE *g_out;

const char *g_probe_names[] = {
	"short_read", "short_write", "eagain_midrecord", "eagain_boundary", "send_blocked",
	"header_split", "record_16384", "clock_jump_during_handshake", "tls13_pad_gt0", "quiesced",
	"fault_fired", "one_byte_segments", "coalesced_read", "entropy_burst", "ephemeral_keys_validated", "tls13_key_schedule_validated", 0
};

/* ------------------------------------------------------------------ rng */
uint64_t mix64(uint64_t x)
{
	x += 0x9e3779b97f4a7c15ULL;
	x = (x ^ (x >> 30)) * 0xbf58476d1ce4e5b9ULL;
	x = (x ^ (x >> 27)) * 0x94d049bb133111ebULL;
	return x ^ (x >> 31);
}

void rng_seed(Rng *r, uint64_t seed, uint64_t stream)
{
	uint64_t z = mix64(seed) ^ mix64(stream * 0xd1342543de82ef95ULL + 1);
	for (int i = 0; i < 4; i++) {
		z = mix64(z + i);
		r->s[i] = z;
	}
	if (!(r->s[0] | r->s[1] | r->s[2] | r->s[3])) r->s[0] = 1;
}

static inline uint64_t rotl(uint64_t x, int k) { return (x << k) | (x >> (64 - k)); }

uint64_t rng_u64(Rng *r)
{
	uint64_t *s = r->s;
	uint64_t result = rotl(s[1] * 5, 7) * 9;
	uint64_t t = s[1] << 17;
	s[2] ^= s[0]; s[3] ^= s[1]; s[1] ^= s[2]; s[0] ^= s[3];
	s[2] ^= t; s[3] = rotl(s[3], 45);
	return result;
}

uint32_t rng_below(Rng *r, uint32_t n)
{
	if (n <= 1) return 0;
	return (uint32_t)(((rng_u64(r) >> 32) * (uint64_t)n) >> 32);
}

int rng_chance(Rng *r, uint32_t num, uint32_t den)
{
	if (num == 0) return 0;
	if (num >= den) return 1;
	return rng_below(r, den) < num;
}

void rng_bytes(Rng *r, uint8_t *buf, size_t n)
{
	while (n) {
		uint64_t v = rng_u64(r);
		size_t k = n < 8 ? n : 8;
		memcpy(buf, &v, k);
		buf += k; n -= k;
	}
}

uint64_t hash_bytes(uint64_t h, const void *p, size_t n)
{
	const uint8_t *b = p;
	h ^= n * 0x9e3779b97f4a7c15ULL;
	while (n >= 8) { uint64_t v; memcpy(&v, b, 8); h = mix64(h ^ v); b += 8; n -= 8; }
	if (n) { uint64_t v = 0; memcpy(&v, b, n); h = mix64(h ^ v ^ 0xff); }
	return h;
}

void hex_str(char *out, const uint8_t *in, size_t n)
{
	static const char d[] = "0123456789abcdef";
	for (size_t i = 0; i < n; i++) { out[2*i] = d[in[i] >> 4]; out[2*i+1] = d[in[i] & 15]; }
	out[2*n] = 0;
}

void die(const char *fmt, ...)
{
	va_list ap;
	va_start(ap, fmt);
	FILE *f = g_out ? g_out : stdout;
	fprintf(f, "HARNESS-ERROR ");
	vfprintf(f, fmt, ap);
	fprintf(f, "\n");
	fflush(f);
	va_end(ap);
	_exit(2);
}

/* --------------------------------------------------------------- tracing */
static const char *ev_name(int k)
{
	static const char *n[] = { "?", "start", "exit", "send", "recv", "sleep", "time", "ent",
		"block", "wake", "close", "app", "fault", "hook", "quiesce", "opres", "note" };
	return (k >= 0 && k <= EV_NOTE) ? n[k] : "?";
}

void sim_trace(int kind, int64_t a, int64_t b)
{
	Sim *s = &g_sim;
	uint64_t h = s->fp;
	h = mix64(h ^ (uint64_t)(s->cur + 2) * 0x100000001b3ULL ^ ((uint64_t)kind << 56));
	h = mix64(h ^ (uint64_t)a);
	h = mix64(h ^ (uint64_t)b ^ ((uint64_t)s->now << 1));
	s->fp = h;
	if (s->log)
		fprintf(s->log, "%8llu t=%lld.%06llds task=%d %-7s %lld %lld\n",
			(unsigned long long)s->step, (long long)(s->now / 1000000000LL),
			(long long)((s->now % 1000000000LL) / 1000), s->cur, ev_name(kind),
			(long long)a, (long long)b);
}

/* -------------------------------------------------------- context switch */
/* Two interchangeable mechanisms.  Default: ucontext fibers on simulator-owned
 * stacks (a switch costs ~0.3 us).  With GMSIM_THREADS (tsan/msan variants):
 * real pthreads parked on a futex baton, exactly one runnable at a time. */
static void task_entry(Task *me);
static uint8_t *g_stacks[SIM_MAX_TASKS];

#ifdef GMSIM_THREADS
static void *thread_main(void *arg)
{
	Task *me = arg;
	baton_wait(&me->turn);
	task_entry(me);
	return NULL;
}
static void ctx_create(Task *t)
{
	pthread_attr_t at;
	pthread_attr_init(&at);
	pthread_attr_setstack(&at, t->stack, SIM_STACK_SIZE);
	if (pthread_create(&t->th, &at, thread_main, t) != 0) die("pthread_create");
	pthread_attr_destroy(&at);
}
static uint32_t *turn_of(int id) { return id < 0 ? &g_sim.main_turn : &g_sim.tasks[id].turn; }
static void ctx_switch(int from, int to, int dying)
{
	baton_pass(turn_of(to));
	if (!dying) baton_wait(turn_of(from));
}
static void ctx_join_all(void)
{
	for (int i = 0; i < g_sim.ntasks; i++) pthread_join(g_sim.tasks[i].th, NULL);
}
#else
#include <ucontext.h>
#if defined(__SANITIZE_ADDRESS__)
void __sanitizer_start_switch_fiber(void **fake_stack_save, const void *bottom, size_t size);
void __sanitizer_finish_switch_fiber(void *fake_stack_save, const void **bottom_old, size_t *size_old);
void __asan_unpoison_memory_region(void const volatile *addr, size_t size);
#define FIBER_ANNOTATE 1
#include <dlfcn.h>
/* ASan's interceptor of swapcontext() clears the shadow of the whole stack it switches to ("may contain stale poison"),
 * and with it the red zones of every frame that is live there: an overflow of a local array of tls*_do_accept/connect —
 * frames that stay live across hundreds of switches — then goes unseen (found with seeded change C06-O).  The switch is
 * annotated with __sanitizer_start/finish_switch_fiber anyway, so libc's own functions are called directly, and stale
 * poison is removed where it can arise: when a stack is handed to a new task. */
static int (*g_real_swapcontext)(ucontext_t *, const ucontext_t *);
static int (*g_real_setcontext)(const ucontext_t *);
static void real_ctx_init(void)
{
	void *h = dlopen("libc.so.6", RTLD_LAZY | RTLD_NOLOAD);
	if (h) {
		g_real_swapcontext = (int (*)(ucontext_t *, const ucontext_t *))dlsym(h, "swapcontext");
		g_real_setcontext = (int (*)(const ucontext_t *))dlsym(h, "setcontext");
	}
	if (!g_real_swapcontext) g_real_swapcontext = swapcontext;
	if (!g_real_setcontext) g_real_setcontext = setcontext;
}
#define swapcontext(a, b) g_real_swapcontext(a, b)
#define setcontext(a) g_real_setcontext(a)
#endif
typedef struct { ucontext_t uc; void *fake; const void *bottom; size_t size; } Ctx;
static Ctx g_ctx[SIM_MAX_TASKS + 1];            /* [0] = main, [i+1] = task i */
static Ctx *g_switched_from;
static Ctx *ctx_of(int id) { return &g_ctx[id + 1]; }

static void after_switch(Ctx *me)
{
#ifdef FIBER_ANNOTATE
	const void *b; size_t n;
	__sanitizer_finish_switch_fiber(me ? me->fake : NULL, &b, &n);
	if (g_switched_from && !g_switched_from->bottom) { g_switched_from->bottom = b; g_switched_from->size = n; }
#else
	(void)me;
#endif
}
static void fiber_main(unsigned lo, unsigned hi)
{
	Task *me = (Task *)(((uintptr_t)hi << 32) | (uintptr_t)lo);
	after_switch(NULL);
	task_entry(me);
	die("fiber returned");
}
static void ctx_create(Task *t)
{
	Ctx *c = ctx_of(t->id);
	memset(c, 0, sizeof(*c));
#ifdef FIBER_ANNOTATE
	if (!g_real_swapcontext) real_ctx_init();
#endif
	getcontext(&c->uc);
	c->uc.uc_stack.ss_sp = t->stack;
	c->uc.uc_stack.ss_size = SIM_STACK_SIZE;
	c->uc.uc_link = NULL;
	c->bottom = t->stack; c->size = SIM_STACK_SIZE;
	uintptr_t p = (uintptr_t)t;
	makecontext(&c->uc, (void (*)(void))fiber_main, 2, (unsigned)(p & 0xffffffffu), (unsigned)(p >> 32));
}
static void ctx_switch(int from, int to, int dying)
{
	Ctx *f = ctx_of(from), *t = ctx_of(to);
	g_switched_from = f;
#ifdef FIBER_ANNOTATE
	__sanitizer_start_switch_fiber(dying ? NULL : &f->fake, t->bottom, t->size);
#endif
	if (dying) { setcontext(&t->uc); die("setcontext"); }
	swapcontext(&f->uc, &t->uc);
	after_switch(f);
}
static void ctx_join_all(void) { }
#endif

/* ------------------------------------------------------------- scheduler */
static int eligible(Task *t)
{
	switch (t->state) {
	case ST_RUNNABLE: return 1;
	case ST_BLOCKED:  return g_sim.abort || t->pred(t->pred_arg);
	case ST_SLEEPING: return g_sim.abort || t->wake_at <= g_sim.now;
	}
	return 0;
}

static int pick_next(void)
{
	Sim *s = &g_sim;
	for (;;) {
		int elig[SIM_MAX_TASKS], n = 0, alldone = 1, cur_ok = 0;
		for (int i = 0; i < s->ntasks; i++) {
			Task *t = &s->tasks[i];
			if (t->state == ST_DONE) continue;
			alldone = 0;
			if (eligible(t)) {
				if (i == s->cur) cur_ok = 1;
				elig[n++] = i;
			}
		}
		if (alldone) return -1;
		if (n > 0) {
			if (s->pct) {
				/* PCT: highest priority eligible task runs */
				int best = elig[0];
				for (int i = 1; i < n; i++)
					if (s->tasks[elig[i]].prio > s->tasks[best].prio) best = elig[i];
				return best;
			}
			if (n == 1) return elig[0];
			if (cur_ok && rng_chance(&s->sched, s->stay_num, s->stay_den)) return s->cur;
			return elig[rng_below(&s->sched, (uint32_t)n)];
		}
		/* nothing eligible: advance the clock to the next timed event */
		int64_t t = INT64_MAX, e;
		for (int i = 0; i < s->ntasks; i++)
			if (s->tasks[i].state == ST_SLEEPING && s->tasks[i].wake_at < t) t = s->tasks[i].wake_at;
		if (s->next_event && s->next_event(&e) && e < t) t = e;
		if (t != INT64_MAX) {
			if (t > s->now) s->now = t;
			else s->now += 1;   /* defensive: never spin */
			continue;
		}
		/* quiescent: the handler may release held traffic or close the
		 * connections (what a peer timeout does); 0 = nothing left to try */
		sim_trace(EV_QUIESCE, 0, 0);
		if (!s->abort && s->on_quiesce && s->on_quiesce()) continue;
		s->abort = 1;
	}
}

static void handoff_from(Task *me)
{
	Sim *s = &g_sim;
	if (s->on_switch) s->on_switch(me->id);
	int next = pick_next();
	if (next == me->id) {
		me->state = ST_RUNNABLE;
		return;
	}
	if (next < 0) die("scheduler: running task but all done");
	s->cur = next;
	s->switches++;
	s->ileave = mix64(s->ileave ^ ((uint64_t)next << 8) ^ (uint64_t)me->id ^ (s->step << 16));
	ctx_switch(me->id, next, 0);
	me->state = ST_RUNNABLE;
	me->quanta++;
}

static void step_tick(void)
{
	Sim *s = &g_sim;
	s->step++;
	if (s->step > s->step_cap && !s->abort) {
		s->abort = 1;
		s->step_capped = 1;
	}
	/* After the cap every blocking call fails fast, so a well-behaved task unwinds within a few steps.
	 * One that keeps yielding (e.g. a retry loop around an entropy source that never delivers) does not
	 * terminate: report it like a CPU hang instead of spinning forever. */
	if (s->step > s->step_cap + s->step_cap / 2 + 100000) {
		fprintf(g_out, "HANG kind=livelock step=%llu task=%d phase=%s\n", (unsigned long long)s->step, s->cur, "yielding without end");
		fflush(g_out);
		_exit(98);
	}
}

Task *sim_cur(void) { return g_sim.cur >= 0 ? &g_sim.tasks[g_sim.cur] : NULL; }

void sim_yield(int kind, int64_t a, int64_t b)
{
	Task *me = sim_cur();
	sim_trace(kind, a, b);
	if (!me) return;
	step_tick();
	me->state = ST_RUNNABLE;
	handoff_from(me);
}

int sim_block(WaitPred pred, void *arg)
{
	Task *me = sim_cur();
	if (!me) die("sim_block from main thread");
	if (g_sim.abort) return -1;
	if (pred(arg)) return 0;
	sim_trace(EV_BLOCK, 0, 0);
	step_tick();
	me->state = ST_BLOCKED;
	me->pred = pred; me->pred_arg = arg;
	handoff_from(me);
	if (g_sim.abort && !pred(arg)) return -1;
	return 0;
}

void sim_sleep(int64_t ns)
{
	Task *me = sim_cur();
	if (!me) return;
	sim_trace(EV_SLEEP, ns, 0);
	step_tick();
	me->state = ST_SLEEPING;
	me->wake_at = g_sim.now + ns;
	handoff_from(me);
}

/* A task that got EAGAIN and now sleeps before retrying is, for the purpose
 * of quiescence detection, blocked on the condition it waits for: otherwise a
 * peer that stalls forever would keep the retry loop (and simulated time)
 * running without end.  Time still advances by at least `ns`. */
void sim_retry_wait(int64_t ns)
{
	Task *me = sim_cur();
	if (!me) return;
	WaitPred pred = me->retry_pred; void *arg = me->retry_arg;
	me->retry_pred = NULL;
	if (!pred || pred(arg)) { sim_sleep(ns); return; }
	int64_t t0 = g_sim.now;
	(void)sim_block(pred, arg);
	if (g_sim.now < t0 + ns) {
		/* woken by an event earlier than the sleep would have ended */
		int64_t rest = t0 + ns - g_sim.now;
		sim_sleep(rest);
	} else {
		/* round up to the retry granularity */
		int64_t over = (g_sim.now - t0) % ns;
		if (over) sim_sleep(ns - over);
	}
}

void sim_abort_run(void) { g_sim.abort = 1; }

static void task_entry(Task *me)
{
	me->state = ST_RUNNABLE;
	sim_trace(EV_START, me->id, me->node);
	me->fn(me->arg);
	fflush(stdout);
	sim_trace(EV_EXIT, me->id, 0);
	Sim *s = &g_sim;
	if (s->on_switch) s->on_switch(me->id);
	me->state = ST_DONE;
	int next = pick_next();
	s->cur = next;
	if (next >= 0) s->switches++;
	ctx_switch(me->id, next, 1);
}

int sim_spawn(const char *name, int node, void (*fn)(void *), void *arg)
{
	Sim *s = &g_sim;
	if (s->ntasks >= SIM_MAX_TASKS) die("too many tasks");
	int id = s->ntasks++;
	Task *t = &s->tasks[id];
	memset(t, 0, sizeof(*t));
	t->id = id; t->node = node; t->name = name; t->fn = fn; t->arg = arg;
	t->state = ST_RUNNABLE;
	if (!g_stacks[id]) {
		g_stacks[id] = mmap(NULL, SIM_STACK_SIZE, PROT_READ | PROT_WRITE,
			MAP_PRIVATE | MAP_ANONYMOUS | MAP_NORESERVE, -1, 0);
		if (g_stacks[id] == MAP_FAILED) die("mmap stack");
	}
	t->stack = g_stacks[id];
#if defined(__SANITIZE_ADDRESS__) && !defined(GMSIM_THREADS)
	__asan_unpoison_memory_region(t->stack, SIM_STACK_SIZE);   /* red zones of frames an earlier task never left */
#endif
	/* Same garbage in every run and in every replay: poison the part of the
	 * stack the library can plausibly reach with a fixed pattern. */
	memset(t->stack + SIM_STACK_SIZE - (768u << 10), 0xA5, 768u << 10);
	ctx_create(t);
	return id;
}

void sim_run(void)
{
	Sim *s = &g_sim;
	s->cur = -1;
	int next = pick_next();
	if (next >= 0) {
		s->cur = next;
		ctx_switch(-1, next, 0);
	}
	ctx_join_all();
	s->cur = -1;
}

void sim_reset(uint64_t sched_seed)
{
	Sim *s = &g_sim;
	FILE *log = s->log;
	memset(s, 0, sizeof(*s));
	s->log = log;
	s->cur = -1;
	rng_seed(&s->sched, sched_seed, 0x5c4ed);
	s->stay_num = 1; s->stay_den = 2;
	s->step_cap = 4000000;
	s->fp = 0x6a09e667f3bcc908ULL;
	for (int i = 0; i < SIM_MAX_NODES; i++) {
		s->nodes[i].efail_at = -1;
		s->nodes[i].afail_at = -1;
		s->nodes[i].eburst_at = -1;
		rng_seed(&s->nodes[i].ent, sched_seed ^ 0xe17, 1000 + i);
	}
}

int64_t sim_node_time(int node)
{
	Sim *s = &g_sim;
	Node *n = &s->nodes[node];
	int64_t t = SIM_T0 + s->now / 1000000000LL + n->skew_s;
	for (int i = 0; i < n->njumps; i++)
		if (n->jumps[i].at_ns <= s->now) t += n->jumps[i].delta_s;
	return t;
}

/* -------------------------------------------------------------- watchdog */
static char g_phase[256];
void sim_set_phase(const char *what)
{
	snprintf(g_phase, sizeof(g_phase), "%s", what);
}

/* a single library call that burns this much CPU without returning is a hang; MSan/TSan builds run the
 * SM9 pairing an order of magnitude slower, so they get a longer leash */
#if defined(GMSIM_MSAN) || defined(GMSIM_TSAN)
#define HANG_CPU_NS   (90LL * 1000000000LL)
#else
#define HANG_CPU_NS   (20LL * 1000000000LL)
#endif
static uint64_t g_progress;
void sim_progress(void)      /* harness loops call this between library calls made within one scheduling step */
{
	__atomic_add_fetch(&g_progress, 1, __ATOMIC_RELAXED);
}
#define RUNAWAY_BYTES (48u << 20)

static int64_t cpu_now(void)
{
	struct timespec ts;
	clock_gettime(CLOCK_PROCESS_CPUTIME_ID, &ts);
	return ts.tv_sec * 1000000000LL + ts.tv_nsec;
}

static void *watchdog_main(void *arg)
{
	(void)arg;
	uint64_t last_step = ~0ULL;
	int64_t cpu_at_change = cpu_now();
	for (;;) {
		struct timespec d = { 0, 200 * 1000 * 1000 };
		nanosleep(&d, NULL);
		uint64_t st = __atomic_load_n(&g_sim.step, __ATOMIC_RELAXED) + (__atomic_load_n(&g_progress, __ATOMIC_RELAXED) << 40);
		int64_t c = cpu_now();
		size_t out = cap_size(0) + cap_size(1);
		if (st != last_step) { last_step = st; cpu_at_change = c; }
		int hang = (c - cpu_at_change > HANG_CPU_NS);
		int runaway = out > RUNAWAY_BYTES;
		if (hang || runaway) {
			fprintf(g_out, "HANG kind=%s step=%llu task=%d phase=%s\n",
				runaway ? "runaway_output" : "cpu", (unsigned long long)(st & ((1ULL << 40) - 1)),
				g_sim.cur, g_phase);
			fflush(g_out);
			_exit(98);
		}
	}
	return NULL;
}

void sim_watchdog_start(void)
{
	pthread_t th;
	pthread_create(&th, NULL, watchdog_main, NULL);
	pthread_detach(th);
}
