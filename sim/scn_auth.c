/* C09 — peer authentication cannot be bypassed (DESIGN 4.2).
 * One credential / message defect per run on the proving side; the verifying
 * endpoint's tls_do_handshake must not return 1. */
#include "gmsim.h"
#include <gmssl/x509_ext.h>

enum {
	D_NONE = 0,
	D_FOREIGN_ROOT_SAMENAME, D_FOREIGN_ROOT_OTHERNAME,
	D_LEAF_EXPIRED, D_LEAF_NOT_YET, D_SUB_EXPIRED, D_SUB_NOT_YET,
	D_CLOCK_AHEAD, D_CLOCK_BEHIND, D_CLOCK_JUMP,
	D_SUB_CA_FALSE, D_SUB_NO_BC, D_SUB_NO_CERTSIGN, D_PATHLEN_EXCEEDED, D_ISSUER_IS_LEAF,
	D_FLIP_LEAF, D_FLIP_SUB,
	D_KEY_MISMATCH_SIGN, D_KEY_MISMATCH_ENC, D_ENC_FOREIGN,
	D_NO_CLIENT_CERT, D_DROP_CLIENT_CERT, D_EMPTY_CLIENT_CERT, D_DROP_CERT_VERIFY,
	D_FOREIGN_ROOT_SAMENAME_SENT, D_FOREIGN_ROOT_OTHERNAME_SENT,
	D_JUNK_SIGNATURE, D_ISSUER_BELOW_V1, D_LEAF_FAR_FUTURE, D_SUB_FAR_FUTURE, D_SIGALG_RELABELLED,
	D_NKINDS
};
static const char *g_dnames[D_NKINDS] = {
	"none", "foreign_root_same_name", "foreign_root_other_name",
	"leaf_expired", "leaf_not_yet_valid", "intermediate_expired", "intermediate_not_yet_valid",
	"verifier_clock_ahead", "verifier_clock_behind", "verifier_clock_jump",
	"issuer_ca_false", "issuer_no_basic_constraints", "issuer_no_keycertsign", "pathlen_exceeded", "issuer_is_end_entity",
	"flipped_bit_in_leaf", "flipped_bit_in_intermediate",
	"sign_key_mismatch", "tlcp_enc_key_mismatch", "tlcp_enc_cert_foreign_issuer",
	"no_client_certificate", "client_certificate_removed", "client_certificate_empty", "certificate_verify_removed",
	"foreign_root_same_name_sent_in_chain", "foreign_root_other_name_sent_in_chain",
	"junk_signature", "issuer_below_v1_certificate", "leaf_valid_from_far_future", "intermediate_valid_from_far_future",
	"foreign_chain_relabelled_as_ecdsa",
};

/* which defects make sense for (proto, role, depth) */
static int applicable(int d, int proto, int role, int depth)
{
	switch (d) {
	case D_SUB_EXPIRED: case D_SUB_NOT_YET: case D_SUB_CA_FALSE: case D_SUB_NO_BC:
	case D_SUB_NO_CERTSIGN: case D_FLIP_SUB: case D_SUB_FAR_FUTURE:
		return depth >= 2;
	case D_ISSUER_BELOW_V1: return depth <= 2 && !(proto == P_TLCP && role == 0 && depth >= 2);   /* two extra certificates: size limit */
	case D_PATHLEN_EXCEEDED: return depth >= 3;
	case D_ISSUER_IS_LEAF: return !(proto == P_TLCP && role == 0 && depth >= 2);   /* size limit */
	case D_KEY_MISMATCH_ENC: case D_ENC_FOREIGN: return proto == P_TLCP && role == 0;
	case D_NO_CLIENT_CERT: return role == 1;
	case D_DROP_CLIENT_CERT: case D_EMPTY_CLIENT_CERT: case D_DROP_CERT_VERIFY: return role == 1 && proto != P_TLS13;
	default: return d != D_NONE;
	}
}

static void auth_gen(Plan *p, uint64_t base_seed, uint64_t variant, int tier)
{
	Rng g, v;
	plan_init(p, "auth");
	p->seed = (int64_t)base_seed;
	rng_seed(&g, base_seed, 0x409);
	gen_common(p, &g, tier);
	gen_rounds(p, &g, tier, 1, 600);
	rng_seed(&v, base_seed ^ mix64(variant + 1), 0x40a);
	p->defect_role = rng_below(&v, 2);
	if (p->defect_role == 1) p->mutual = 1;
	p->skew_c = p->skew_s = 0;
	for (int tries = 0; tries < 64; tries++) {
		p->defect = 1 + rng_below(&v, D_NKINDS - 1);
		if (applicable((int)p->defect, (int)p->proto, (int)p->defect_role, (int)p->depth)) break;
		p->defect = D_LEAF_EXPIRED;
	}
	p->defect_arg = (int64_t)(rng_u64(&v) >> 8);
	/* trust bundles of 1..7 anchors: the real one plus unrelated roots (a bundle that the
	 * library refuses as too large makes the run inapplicable) */
	p->extra_roots = rng_chance(&v, 1, 3) ? (int64_t)rng_below(&v, 7) : 0;
	if (p->defect == D_DROP_CLIENT_CERT || p->defect == D_EMPTY_CLIENT_CERT || p->defect == D_DROP_CERT_VERIFY) p->interpose = 1;
	if (p->defect == D_CLOCK_JUMP && p->max_lat_ns == 0) p->max_lat_ns = 2000000;
}

/* ------------------------------------------------------------------ run */
static const Plan *g_ap;
static int g_defect_applied;
static int64_t g_win_nb, g_win_na;       /* validity window that is violated (clock defects) */

static void auth_on_record(Conn *c, int dir, int idx, const uint8_t *rec, size_t len)
{
	(void)idx;
	if (dir == DIR_C2S && len > 9 && rec[0] == TLS_record_handshake) {
		int ht = rec[5];
		if ((g_ap->defect == D_DROP_CLIENT_CERT && (ht == TLS_handshake_certificate || ht == TLS_handshake_certificate_verify))
		    || (g_ap->defect == D_DROP_CERT_VERIFY && ht == TLS_handshake_certificate_verify)) {
			g_defect_applied = 1;
			sim_trace(EV_FAULT, ht, 0);
			return;
		}
		if (g_ap->defect == D_EMPTY_CLIENT_CERT && ht == TLS_handshake_certificate) {
			uint8_t e[12] = { rec[0], rec[1], rec[2], 0, 7, TLS_handshake_certificate, 0, 0, 3, 0, 0, 0 };
			g_defect_applied = 1;
			sim_trace(EV_FAULT, ht, 1);
			net_forward(c, dir, e, sizeof(e));
			return;
		}
	}
	net_forward(c, dir, rec, len);
}

static int g_nocert;
static SM2_KEY g_wrong_key;
static int g_mismatch;   /* 1 sign, 2 enc */

static void auth_pre_run(Endpoint *cl, Endpoint *sv)
{
	Endpoint *prover = g_ap->defect_role == 0 ? sv : cl;
	if (g_mismatch == 1) prover->conn->sign_key = g_wrong_key;
	if (g_mismatch == 2) prover->conn->kenc_key = g_wrong_key;
	if (g_nocert) {
		cl->conn->client_certs_len = 0;
		memset(cl->conn->client_certs, 0, sizeof(cl->conn->client_certs));
	}
}

static int build_defect(const Plan *p, const CredSet *good, CredSet *bad, Plan *q, char *note, size_t nlen)
{
	CredOpts o;
	Rng r;
	int role = (int)p->defect_role, depth = (int)p->depth;
	const int64_t nb = SIM_T0 - 86400, na = SIM_T0 + 365 * 86400LL;
	rng_seed(&r, (uint64_t)p->defect_arg, 0xd3f);
	credopts_init(&o, role);
	g_nocert = 0; g_mismatch = 0; g_win_nb = 0; g_win_na = 0;
	int verifier_node = role == 0 ? 0 : 1;
	int derive = 0;
	note[0] = 0;
	int64_t edge = (int64_t[]){ 1, 1, 2, 60, 3600, 6 * 3600, 86400, 400 * 86400LL }[rng_below(&r, 8)];
	switch (p->defect) {
	case D_FOREIGN_ROOT_SAMENAME: o.foreign_root = 1; derive = 1; break;
	case D_FOREIGN_ROOT_OTHERNAME: o.foreign_root = 2; derive = 1; break;
	/* the prover also sends its self-made root at the end of the chain (a verifier must anchor the chain in
	 * ITS OWN copy of a trusted certificate, not in whatever CA certificate the peer supplies under that name) */
	case D_FOREIGN_ROOT_SAMENAME_SENT: o.foreign_root = 1; o.root_in_chain = 1; derive = 1; break;
	case D_FOREIGN_ROOT_OTHERNAME_SENT: o.foreign_root = 2; o.root_in_chain = 1; derive = 1; break;
	case D_LEAF_EXPIRED: o.leaf_nb = nb - 400 * 86400LL; o.leaf_na = SIM_T0 - edge; derive = 1;
		g_win_nb = o.leaf_nb; g_win_na = o.leaf_na;
		snprintf(note, nlen, "leaf notAfter = now-%lld", (long long)edge); break;
	case D_LEAF_NOT_YET: o.leaf_nb = SIM_T0 + edge + 1; o.leaf_na = na + 400 * 86400LL; derive = 1;
		g_win_nb = o.leaf_nb; g_win_na = o.leaf_na;
		snprintf(note, nlen, "leaf notBefore = now+%lld", (long long)edge + 1); break;
	case D_SUB_EXPIRED: { int i = (int)rng_below(&r, (uint32_t)(depth - 1)); o.sub_nb[i] = nb - 400 * 86400LL; o.sub_na[i] = SIM_T0 - edge; derive = 1;
		g_win_nb = o.sub_nb[i]; g_win_na = o.sub_na[i];
		snprintf(note, nlen, "intermediate %d notAfter = now-%lld", i, (long long)edge); break; }
	case D_SUB_NOT_YET: { int i = (int)rng_below(&r, (uint32_t)(depth - 1)); o.sub_nb[i] = SIM_T0 + edge + 1; o.sub_na[i] = na + 400 * 86400LL; derive = 1;
		g_win_nb = o.sub_nb[i]; g_win_na = o.sub_na[i];
		snprintf(note, nlen, "intermediate %d notBefore = now+%lld", i, (long long)edge + 1); break; }
	case D_CLOCK_AHEAD: {
		/* leaf window is [nb, na]; verifier's clock reads na + edge: root (valid until na + 4 years) stays valid */
		int64_t sk = 365 * 86400LL + (edge > 1000 * 86400LL ? 1000 * 86400LL : edge);
		if (verifier_node == 0) q->skew_c = sk; else q->skew_s = sk;
		g_win_nb = nb; g_win_na = na;
		snprintf(note, nlen, "verifier clock = leaf notAfter + %lld", (long long)(sk - 365 * 86400LL)); break; }
	case D_CLOCK_BEHIND: {
		int64_t sk = -86400 - (edge > 1000 * 86400LL ? 1000 * 86400LL : edge);
		if (verifier_node == 0) q->skew_c = sk; else q->skew_s = sk;
		g_win_nb = nb; g_win_na = na;
		snprintf(note, nlen, "verifier clock = leaf notBefore - %lld", (long long)(-sk - 86400)); break; }
	case D_CLOCK_JUMP: {
		/* the verifier's clock is outside the leaf's window from the very first read; it jumps
		 * back into range only at a simulated time no handshake reaches (1000 s) */
		int64_t sk = rng_chance(&r, 1, 2) ? 365 * 86400LL + 3600 : -86400 - 3600;
		if (verifier_node == 0) q->skew_c = sk; else q->skew_s = sk;
		q->jump_node = verifier_node; q->jump_at_ns = 1000LL * 1000000000LL; q->jump_delta_s = -sk;
		g_win_nb = nb; g_win_na = na;
		snprintf(note, nlen, "verifier clock off by %lld until t=1000s", (long long)sk); break; }
	case D_SUB_CA_FALSE: o.sub_bc[rng_below(&r, (uint32_t)(depth - 1))] = 2; derive = 1; break;
	case D_SUB_NO_BC: o.sub_bc[rng_below(&r, (uint32_t)(depth - 1))] = 0; derive = 1; break;
	case D_SUB_NO_CERTSIGN: o.sub_ku[rng_below(&r, (uint32_t)(depth - 1))] = X509_KU_DIGITAL_SIGNATURE | X509_KU_CRL_SIGN; derive = 1; break;
	case D_PATHLEN_EXCEEDED: o.sub_pathlen[1] = 0; derive = 1; break;
	case D_ISSUER_IS_LEAF: o.issuer_is_leaf = 1; derive = 1; break;
	case D_ISSUER_BELOW_V1: o.issuer_below_v1 = 1; derive = 1; break;
	case D_SIGALG_RELABELLED: o.foreign_root = 1; derive = 1; break;      /* and see below */
	case D_LEAF_FAR_FUTURE: case D_SUB_FAR_FUTURE: {
		/* notBefore 68..137 years ahead: differences that no longer fit 31 resp. 32 bits of seconds */
		int64_t far = (int64_t[]){ 0x7fffffffLL + 5, 0x80000000LL + 86400, 0xfffffff0LL, 0x100000000LL - 86400 * 30, 0x100000000LL + 3600 }[rng_below(&r, 5)];
		if (p->defect == D_LEAF_FAR_FUTURE) { o.leaf_nb = SIM_T0 + far; o.leaf_na = o.leaf_nb + 365 * 86400LL; g_win_nb = o.leaf_nb; g_win_na = o.leaf_na; }
		else { int i = (int)rng_below(&r, (uint32_t)(depth - 1)); o.sub_nb[i] = SIM_T0 + far; o.sub_na[i] = o.sub_nb[i] + 365 * 86400LL; g_win_nb = o.sub_nb[i]; g_win_na = o.sub_na[i]; }
		derive = 1;
		snprintf(note, nlen, "notBefore = now+%lld s", (long long)far); break; }
	case D_ENC_FOREIGN: o.enc_foreign = 1; derive = 1; break;
	default: break;
	}
	if (derive) {
		if (creds_derive(good, &o, bad) != 1) die("creds_derive failed defect=%d", (int)p->defect);
		if (!bad->ok) return 0;          /* chain does not fit the library's 2048-byte limit: not a usable case */
	} else {
		*bad = *good;
	}
	uint8_t *chain = role == 0 ? bad->srv_chain : bad->cli_chain;
	size_t chain_len = role == 0 ? bad->srv_chain_len : bad->cli_chain_len;
	switch (p->defect) {
	case D_FLIP_LEAF: case D_FLIP_SUB: {
		/* one bit inside the chosen certificate, but not in its outer SEQUENCE header
		 * (a changed outer length is a framing matter, not a signature matter) */
		const uint8_t *cert = chain; size_t certlen = 0, left = chain_len;
		const uint8_t *pp = chain;
		int want = p->defect == D_FLIP_LEAF ? 0 : (good->tlcp && role == 0 ? 2 : 1) + (int)rng_below(&r, (uint32_t)(depth - 1));
		for (int i = 0; i <= want; i++)
			if (x509_cert_from_der(&cert, &certlen, &pp, &left) != 1) return 0;
		size_t off = (size_t)(cert - chain) + 8 + rng_below(&r, (uint32_t)(certlen - 8));
		chain[off] ^= (uint8_t)(1u << rng_below(&r, 8));
		snprintf(note, nlen, "bit flipped at byte %zu of certificate %d (%zu bytes)", off - (size_t)(cert - chain), want, certlen);
		break; }
	case D_KEY_MISMATCH_SIGN:
		if (sm2_key_generate(&g_wrong_key) != 1) die("keygen");
		g_mismatch = 1; break;
	case D_KEY_MISMATCH_ENC:
		if (sm2_key_generate(&g_wrong_key) != 1) die("keygen");
		g_mismatch = 2; break;
	case D_NO_CLIENT_CERT: g_nocert = 1; break;
	case D_SIGALG_RELABELLED: {
		/* a chain made under a self-made root of the trusted name, with every "sm2sign-with-sm3" AlgorithmIdentifier
		 * rewritten to ecdsa-with-SHA256 (same length): signatures a verifier cannot check are not valid signatures */
		static const uint8_t sm2[10] = { 0x06, 0x08, 0x2a, 0x81, 0x1c, 0xcf, 0x55, 0x01, 0x83, 0x75 };
		static const uint8_t ecd[10] = { 0x06, 0x08, 0x2a, 0x86, 0x48, 0xce, 0x3d, 0x04, 0x03, 0x02 };
		int n = 0;
		for (size_t i = 0; i + 10 <= chain_len; i++) if (!memcmp(chain + i, sm2, 10)) { memcpy(chain + i, ecd, 10); n++; }
		snprintf(note, nlen, "%d AlgorithmIdentifiers relabelled", n);
		break; }
	case D_JUNK_SIGNATURE:
		/* genuine chain, but whatever the prover signs comes out as junk (raw r||s, OCTET STRING, one byte,
		 * random well-formed signature, empty, SET tag) */
		g_junk_sig_node = role == 0 ? 1 : 0;
		g_junk_sig_form = (int)rng_below(&r, 6);
		g_junk_sig_seed = (uint64_t)p->defect_arg;
		g_junk_sig_fired = 0;
		snprintf(note, nlen, "prover's signatures replaced, form %d", g_junk_sig_form);
		break;
	default: break;
	}
	return 1;
}

static void auth_run(const Plan *p, RunResult *r)
{
	static HonestOut o, tw;
	static Plan q, q0;
	static CredSet bad;
	char note[160], why[128];
	const CredSet *good = creds_get((int)p->depth, p->proto == P_TLCP);

	snprintf(r->extra, sizeof(r->extra), "proto=%s mutual=%d depth=%d defect=%s role=%s",
		g_proto_names[p->proto], (int)p->mutual, (int)p->depth, g_dnames[p->defect % D_NKINDS], p->defect_role ? "server_verifies" : "client_verifies");

	/* a plan edited by hand or by the shrinker may pair a defect with a configuration
	 * in which it does not exist (e.g. an intermediate defect at depth 1): no demand */
	if (p->defect <= D_NONE || p->defect >= D_NKINDS ||
	    !applicable((int)p->defect, (int)p->proto, (int)p->defect_role, (int)p->depth) || (p->defect_role == 1 && !p->mutual)) {
		r->twin_failed = 1;
		return;
	}
	/* defect-free twin: same plan, good credentials, no interposer edits */
	g_junk_sig_node = -1;
	q0 = *p;
	q0.defect = D_NONE;
	g_ap = &q0; g_nocert = 0; g_mismatch = 0; g_defect_applied = 0;
	conn_run(&q0, good, &tw, p->interpose ? auth_on_record : NULL, auth_pre_run);
	RunResult rt; memset(&rt, 0, sizeof(rt));
	honest_oracle(&q0, &tw, &rt);
	if (tw.setup_refused) { r->twin_failed = 1; snprintf(r->extra + strlen(r->extra), sizeof(r->extra) - strlen(r->extra), " refused_config=1"); return; }
	if (rt.violated) {
		r->twin_failed = 1;
		snprintf(r->extra + strlen(r->extra), sizeof(r->extra) - strlen(r->extra), " twin_failed=\"%s\"", rt.vclass);
		return;
	}

	q = *p;
	g_ap = &q; g_defect_applied = 0;
	sim_ambient_entropy_seed((uint64_t)p->plan_seed ^ (uint64_t)p->defect_arg);   /* defective credentials are a function of the plan */
	if (!build_defect(p, good, &bad, &q, note, sizeof(note))) { r->twin_failed = 1; return; }
	conn_run(&q, &bad, &o, q.interpose ? auth_on_record : NULL, auth_pre_run);
	g_junk_sig_node = -1;
	if (o.setup_refused) { r->twin_failed = 1; return; }

	int verifier = p->defect_role == 0 ? 0 : 1;
	int interposer_defect = p->defect == D_DROP_CLIENT_CERT || p->defect == D_EMPTY_CLIENT_CERT || p->defect == D_DROP_CERT_VERIFY;
	r->nontrivial = !interposer_defect || g_defect_applied;
	if (p->defect == D_JUNK_SIGNATURE) r->nontrivial = g_junk_sig_fired > 0;
	r->fault_id = hash_bytes(0xa07, (int64_t[]){ p->proto, p->defect, p->defect_role, p->depth, p->mutual, p->defect_arg & 0xffff }, 48);
	r->nontrivial_id = r->fault_id;
	r->faults_cfg[F_MUT] = 1; r->faults_fired[F_MUT] = r->nontrivial;
	if (o.step_capped) { rr_violation(r, "no_termination", "step cap reached"); return; }
	if (!r->nontrivial) return;

	if (o.hs_ret[verifier] == 1) {
		/* time defects: accepted only counts as a bypass if NO clock value the verifier
		 * read during the run lies inside the violated window */
		if (g_win_na) {
			Node *n = &g_sim.nodes[verifier];
			for (int i = 0; i < n->ntimelog; i++)
				if (n->timelog[i] >= g_win_nb && n->timelog[i] <= g_win_na) {
					g_sim.probes[PR_CLOCK_JUMP_HS]++;
					return;
				}
		}
		snprintf(why, sizeof(why), "%s", note);
		rr_violation(r, "auth_bypass", "proto=%s depth=%d %s accepted a peer with defect %s (%s); peer handshake returned %d",
			g_proto_names[p->proto], (int)p->depth, verifier ? "server" : "client", g_dnames[p->defect], why, o.hs_ret[1 - verifier]);
		snprintf(r->vclass, sizeof(r->vclass), "auth_bypass:%s:%s:%s", g_proto_names[p->proto],
			verifier ? "server" : "client", g_dnames[p->defect]);
		return;
	}
	char what[256];
	if (mon_state_violation(what, sizeof(what))) rr_violation(r, "state_corrupt", "%s", what);
}

const Scenario g_scn_auth = { "auth", "C09", 1, auth_gen, auth_run };
