/* Plans: explicit, line-oriented, replayable descriptions of one simulated run. */
#include "gmsim.h"
#include <stddef.h>
#include <inttypes.h>

const char *g_proto_names[3] = { "tlcp", "tls12", "tls13" };
const char *g_fault_names[F_NKINDS] = {
	"none", "flip", "drop", "dup", "swap", "replay", "trunc", "extend", "inject", "mut", "evil", "crash", "afail"
};

int proto_const(int p)
{
	return p == P_TLCP ? TLS_protocol_tlcp : p == P_TLS12 ? TLS_protocol_tls12 : TLS_protocol_tls13;
}

#define F(name) { #name, offsetof(Plan, name) }
static const struct { const char *name; size_t off; } g_fields[] = {
	F(seed), F(proto), F(mutual), F(depth), F(cred_mode),
	F(sched_seed), F(net_seed), F(ent_c), F(ent_s), F(plan_seed),
	F(stay_num), F(stay_den),
	F(seg_style), F(max_chunk), F(max_lat_ns), F(short_write), F(eagain), F(capacity),
	F(skew_c), F(skew_s), F(jump_node), F(jump_at_ns), F(jump_delta_s),
	F(interpose), F(closer),
	F(defect), F(defect_role), F(defect_arg),
	F(op), F(op_count), F(efail_node), F(efail_at), F(efail_rest), F(efail_errno), F(eburst_at), F(eburst_k), F(eburst_val),
	F(ntasks), F(preempt_mean), F(pct_d),
	F(victim), F(extra_roots), F(tz), F(early_close),
	F(afail_node), F(afail_at), F(afail_rest), F(seg_late),
};
#define NFIELDS (sizeof(g_fields) / sizeof(g_fields[0]))

void plan_init(Plan *p, const char *scenario)
{
	memset(p, 0, sizeof(*p));
	snprintf(p->scenario, sizeof(p->scenario), "%s", scenario);
	p->depth = 1;
	p->stay_num = 1; p->stay_den = 2;
	p->efail_node = -1; p->efail_at = -1; p->eburst_at = -1; p->efail_errno = 5;
	p->jump_node = -1;
	p->afail_node = -1; p->afail_at = -1;
	p->defect = 0;
}

void plan_print(FILE *f, const Plan *p)
{
	fprintf(f, "scenario %s\n", p->scenario);
	for (size_t i = 0; i < NFIELDS; i++) {
		int64_t v = *(const int64_t *)((const char *)p + g_fields[i].off);
		fprintf(f, "%s %" PRId64 "\n", g_fields[i].name, v);
	}
	for (int i = 0; i < p->nrounds; i++) {
		const Round *r = &p->rounds[i];
		fprintf(f, "round %d %" PRId64 " %" PRId64 " %" PRId64 " %" PRId64 " %" PRId64 " %" PRId64 " %" PRId64 " %" PRId64 "\n",
			r->mode, r->n[0], r->n[1], r->wchunk[0], r->wchunk[1], r->rbuf_max[0], r->rbuf_max[1], r->ack_every, r->ack_size);
	}
	for (int i = 0; i < p->nfaults; i++) {
		const Fault *x = &p->faults[i];
		fprintf(f, "fault %s %d %" PRId64 " %" PRId64 " %" PRId64 " %" PRId64 " %" PRId64 " %" PRId64 "\n",
			g_fault_names[x->kind], x->dir, x->rec, x->off, x->bit, x->a, x->b, x->c);
	}
	fprintf(f, "end\n");
}

char *plan_to_string(const Plan *p)
{
	char *buf = NULL; size_t n = 0;
	FILE *f = open_memstream(&buf, &n);
	plan_print(f, p);
	fclose(f);
	return buf;
}

int plan_parse(FILE *f, Plan *p)
{
	char line[512];
	int got_scenario = 0;
	plan_init(p, "");
	while (fgets(line, sizeof(line), f)) {
		char key[64];
		if (line[0] == '#' || line[0] == '\n') continue;
		if (sscanf(line, "%63s", key) != 1) continue;
		if (!strcmp(key, "end")) break;
		if (!strcmp(key, "scenario")) {
			sscanf(line, "%*s %15s", p->scenario);
			got_scenario = 1;
			continue;
		}
		if (!strcmp(key, "round")) {
			if (p->nrounds >= MAX_ROUNDS) return -1;
			Round *r = &p->rounds[p->nrounds];
			memset(r, 0, sizeof(*r));
			if (sscanf(line, "%*s %d %" SCNd64 " %" SCNd64 " %" SCNd64 " %" SCNd64 " %" SCNd64 " %" SCNd64 " %" SCNd64 " %" SCNd64,
				&r->mode, &r->n[0], &r->n[1], &r->wchunk[0], &r->wchunk[1], &r->rbuf_max[0], &r->rbuf_max[1], &r->ack_every, &r->ack_size) < 7) return -1;
			p->nrounds++;
			continue;
		}
		if (!strcmp(key, "fault")) {
			if (p->nfaults >= MAX_FAULTS) return -1;
			Fault *x = &p->faults[p->nfaults];
			char kind[32];
			memset(x, 0, sizeof(*x));
			if (sscanf(line, "%*s %31s %d %" SCNd64 " %" SCNd64 " %" SCNd64 " %" SCNd64 " %" SCNd64 " %" SCNd64,
				kind, &x->dir, &x->rec, &x->off, &x->bit, &x->a, &x->b, &x->c) != 8) return -1;
			x->kind = -1;
			for (int k = 0; k < F_NKINDS; k++) if (!strcmp(kind, g_fault_names[k])) x->kind = k;
			if (x->kind < 0) return -1;
			p->nfaults++;
			continue;
		}
		size_t i;
		for (i = 0; i < NFIELDS; i++) {
			if (!strcmp(key, g_fields[i].name)) {
				int64_t v;
				if (sscanf(line, "%*s %" SCNd64, &v) != 1) return -1;
				*(int64_t *)((char *)p + g_fields[i].off) = v;
				break;
			}
		}
		/* unknown keys are ignored so that old replay files stay readable */
	}
	return got_scenario ? 1 : -1;
}
