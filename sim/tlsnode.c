/* TLS endpoints as simulator tasks: real tls_init / tls_do_handshake /
 * tls_send|tls13_send / tls_recv|tls13_recv / tls_shutdown over simulated pipes. */
#define _GNU_SOURCE
#include "gmsim.h"
#include <stdarg.h>

Endpoint g_ep[2 * NET_MAX_CONN];

uint8_t payload_byte(int dir, uint64_t i)
{
	uint64_t w = mix64((i >> 3) * 2 + (uint64_t)dir + 0x7000);
	return (uint8_t)(w >> ((i & 7) * 8));
}

void payload_fill(int dir, uint64_t off, uint8_t *buf, size_t n)
{
	for (size_t k = 0; k < n; k++) buf[k] = payload_byte(dir, off + k);
}

void keysnap_take(KeySnap *k, const TLS_CONNECT *conn)
{
	memset(k, 0, sizeof(*k));
	k->valid = 1;
	k->protocol = conn->protocol;
	k->cipher_suite = conn->cipher_suite;
	memcpy(k->master_secret, conn->master_secret, 48);
	memcpy(k->key_block, conn->key_block, 96);
	memcpy(k->cw_iv, conn->client_write_iv, 12);
	memcpy(k->sw_iv, conn->server_write_iv, 12);
	memcpy(k->cw_key, &conn->client_write_key, sizeof(BLOCK_CIPHER_KEY));
	memcpy(k->sw_key, &conn->server_write_key, sizeof(BLOCK_CIPHER_KEY));
	memcpy(k->cseq, conn->client_seq_num, 8);
	memcpy(k->sseq, conn->server_seq_num, 8);
}

int keysnap_equal(const KeySnap *a, const KeySnap *b, int proto, char *why, size_t n)
{
	if (a->protocol != b->protocol) { snprintf(why, n, "protocol %x vs %x", a->protocol, b->protocol); return 0; }
	if (a->cipher_suite != b->cipher_suite) { snprintf(why, n, "cipher_suite %x vs %x", a->cipher_suite, b->cipher_suite); return 0; }
	if (proto == P_TLS13) {
		if (memcmp(a->cw_key, b->cw_key, sizeof(a->cw_key))) { snprintf(why, n, "client_write_key differs"); return 0; }
		if (memcmp(a->sw_key, b->sw_key, sizeof(a->sw_key))) { snprintf(why, n, "server_write_key differs"); return 0; }
		if (memcmp(a->cw_iv, b->cw_iv, 12)) { snprintf(why, n, "client_write_iv differs"); return 0; }
		if (memcmp(a->sw_iv, b->sw_iv, 12)) { snprintf(why, n, "server_write_iv differs"); return 0; }
	} else {
		if (memcmp(a->master_secret, b->master_secret, 48)) { snprintf(why, n, "master_secret differs"); return 0; }
		if (memcmp(a->key_block, b->key_block, 96)) { snprintf(why, n, "key_block differs"); return 0; }
	}
	return 1;
}

/* trust store = the real anchor followed by p->extra_roots unrelated roots */
static void set_trust(TLS_CTX *ctx, const Plan *p, const CredSet *cs)
{
	static uint8_t buf[MAX_CHAIN + 8 * 800];
	size_t len = cs->trust_len;
	memcpy(buf, cs->trust, len);
	if (p->extra_roots > 0) len += creds_extra_roots((int)p->extra_roots, buf + len, sizeof(buf) - len);
	ctx->cacerts = malloc(len ? len : 1);
	if (!ctx->cacerts) die("oom");
	memcpy(ctx->cacerts, buf, len);
	ctx->cacertslen = len;
}

static uint8_t *dupmem(const uint8_t *p, size_t n)
{
	uint8_t *q = malloc(n ? n : 1);
	if (!q) die("oom");
	memcpy(q, p, n);
	return q;
}

/* ---- context setup through the public setters, from PEM files, as an application does it ----
 * (the files live in memfds; the key PEM is a PKCS#8 EncryptedPrivateKeyInfo with a PBKDF2 count of 1 so that
 * opening it costs microseconds; whatever state the setters derive ends up in the context, unlike with a
 * context whose fields the harness fills in by hand) */
#include <sys/mman.h>
#ifdef GMSIM_MSAN
#include <sanitizer/msan_interface.h>
#endif
#include <gmssl/pkcs8.h>
#include <gmssl/pem.h>
/* exported by libgmssl but not declared in tls.h */
int tls13_record_encrypt(const BLOCK_CIPHER_KEY *key, const uint8_t iv[12],
	const uint8_t seq_num[8], const uint8_t *record, size_t recordlen, size_t padding_len,
	uint8_t *enced_record, size_t *enced_recordlen);
static int memfile_of(const void *data, size_t len, char path[64])
{
	int fd = memfd_create("gmsim_pem", 0);
	if (fd < 0) return -1;
	if (len && write(fd, data, len) != (ssize_t)len) { close(fd); return -1; }
	snprintf(path, 64, "/proc/self/fd/%d", fd);
	return fd;
}
static int certs_file(const uint8_t *der, size_t derlen, char path[64])
{
	char *mem = NULL; size_t len = 0;
	FILE *f = open_memstream(&mem, &len);
	if (!f) return -1;
	/* one PEM block per outer TLV, without asking the X.509 parser (the chain may be defective on purpose) */
	int ret = 1;
	while (derlen && ret == 1) {
		size_t n = derlen;
		if (derlen >= 4 && der[0] == 0x30 && der[1] == 0x82 && 4 + (((size_t)der[2] << 8) | der[3]) <= derlen) n = 4 + (((size_t)der[2] << 8) | der[3]);
		else if (derlen >= 3 && der[0] == 0x30 && der[1] == 0x81 && 3 + (size_t)der[2] <= derlen) n = 3 + (size_t)der[2];
		ret = pem_write(f, "CERTIFICATE", der, n);
		der += n; derlen -= n;
	}
	fclose(f);
	int fd = ret == 1 ? memfile_of(mem, len, path) : -1;
	free(mem);
	return fd;
}
static const char *g_keypass = "sim-key-pass";
static int key_file(const SM2_KEY *key, Rng *r, char path[64])
{
	uint8_t info[256], *p = info, enced[sizeof(info) + 32], der[512], *q = der;
	uint8_t salt[16], iv[16], k16[16];
	size_t infolen = 0, encedlen = 0, derlen = 0, len = 0;
	SM4_KEY sk;
	char *mem = NULL;
	rng_bytes(r, salt, 16); rng_bytes(r, iv, 16);
	if (sm2_private_key_info_to_der(key, &p, &infolen) != 1
		|| sm3_pbkdf2(g_keypass, strlen(g_keypass), salt, 16, 1, 16, k16) != 1) return -1;
	sm4_set_encrypt_key(&sk, k16);
	if (sm4_cbc_padding_encrypt(&sk, iv, info, infolen, enced, &encedlen) != 1
		|| pkcs8_enced_private_key_info_to_der(salt, 16, 1, 16, OID_hmac_sm3, OID_sm4_cbc, iv, 16, enced, encedlen, &q, &derlen) != 1) return -1;
	FILE *f = open_memstream(&mem, &len);
	if (!f) return -1;
	int ret = pem_write(f, "ENCRYPTED PRIVATE KEY", der, derlen);
	fclose(f);
	int fd = ret == 1 ? memfile_of(mem, len, path) : -1;
	free(mem);
	return fd;
}

/* 1 ok, -1 the library refused */
int ctx_setup_from_files(TLS_CTX *ctx, Rng *rng, const uint8_t *chain, size_t chainlen, const SM2_KEY *sign, const SM2_KEY *kenc,
	const uint8_t *ca, size_t calen, int depth)
{
	char pc[64], ps[64], pk[64], pa[64];
	int fc = -1, fs = -1, fk = -1, fa = -1, ret = 1;
	if (chain && chainlen) {
		fc = certs_file(chain, chainlen, pc); fs = key_file(sign, rng, ps);
		if (kenc) fk = key_file(kenc, rng, pk);
		if (fc < 0 || fs < 0 || (kenc && fk < 0)) die("pem files");
		if (kenc) ret = tls_ctx_set_tlcp_server_certificate_and_keys(ctx, pc, ps, g_keypass, pk, g_keypass);
		else ret = tls_ctx_set_certificate_and_key(ctx, pc, ps, g_keypass);
	}
	if (ret == 1 && ca && calen) {
		fa = certs_file(ca, calen, pa);
		if (fa < 0) die("pem files");
		ret = tls_ctx_set_ca_certificates(ctx, pa, depth);
	}
	if (fc >= 0) close(fc);
	if (fs >= 0) close(fs);
	if (fk >= 0) close(fk);
	if (fa >= 0) close(fa);
	return ret == 1 ? 1 : -1;
}

static int ep_setup_inner(Endpoint *ep, int side, Conn *c, const Plan *p, const CredSet *cs, int proto);
int ep_setup(Endpoint *ep, int side, Conn *c, const Plan *p, const CredSet *cs, int node)
{
	memset(ep, 0, sizeof(*ep));
	ep->side = side; ep->c = c; ep->plan = p; ep->node = node;
	rng_seed(&ep->rbuf, (uint64_t)p->plan_seed, 0xbf00 + (uint64_t)side + (uint64_t)c->id * 2);

	int proto = proto_const((int)p->proto);
	int ret = ep_setup_inner(ep, side, c, p, cs, proto);
	g_setup_node = -1;
	return ret;
}

static int ep_setup_inner(Endpoint *ep, int side, Conn *c, const Plan *p, const CredSet *cs, int proto)
{
	g_setup_node = ep->node;
	if (tls_ctx_init(&ep->ctx, proto, side == 0 ? TLS_client_mode : TLS_server_mode) != 1) return -1;
	int cs_tlcp[] = { TLS_cipher_ecc_sm4_cbc_sm3 };
	int cs_12[] = { TLS_cipher_ecdhe_sm4_cbc_sm3 };
	int cs_13[] = { TLS_cipher_sm4_gcm_sm3 };
	const int *suite = p->proto == P_TLCP ? cs_tlcp : p->proto == P_TLS12 ? cs_12 : cs_13;
	if (tls_ctx_set_cipher_suites(&ep->ctx, suite, 1) != 1) return -1;

	{
		static uint8_t trust[MAX_CHAIN + 8 * 800];
		size_t trustlen = 0;
		int want_trust = side == 0 ? !((p->cred_mode & 2) && p->proto == P_TLCP) : p->mutual != 0;
		if (want_trust) {
			trustlen = cs->trust_len;
			memcpy(trust, cs->trust, trustlen);
			if (p->extra_roots > 0) trustlen += creds_extra_roots((int)p->extra_roots, trust + trustlen, sizeof(trust) - trustlen);
		}
		int have_cert = side == 1 || p->mutual || (p->cred_mode & 4);
		/* the verify depth is the smallest one that admits the honest chain (0 when the root issues the leaves: "no
		 * intermediate CA certificates"), the default or the maximum */
		int vdepth = (int[]){ TLS_DEFAULT_VERIFY_DEPTH, (int)p->depth - 1, (int)p->depth - 1, TLS_MAX_VERIFY_DEPTH }[(mix64((uint64_t)p->plan_seed ^ 0x7d) >> (8 * side)) & 3];
		if (ctx_setup_from_files(&ep->ctx, &ep->rbuf, have_cert ? (side == 0 ? cs->cli_chain : cs->srv_chain) : NULL,
				have_cert ? (side == 0 ? cs->cli_chain_len : cs->srv_chain_len) : 0,
				side == 0 ? &cs->cli_sign.key : &cs->srv_sign.key,
				side == 1 && cs->tlcp ? &cs->srv_enc.key : NULL,
				want_trust ? trust : NULL, trustlen, vdepth) != 1) return -1;
	}
	ep->conn = calloc(1, sizeof(TLS_CONNECT));
	if (!ep->conn) die("oom");
	if (p->cred_mode & 8) {
		/* the object is not fresh: it holds what an earlier connection (or the caller's stack) left in it, among it
		 * unread plaintext.  tls_init() is the only thing between that and this connection. */
		memset(ep->conn, 0xA5, sizeof(TLS_CONNECT));
		ep->conn->data = ep->conn->databuf + 7;
		ep->conn->datalen = 90;
		ep->conn->enced_record_len = 333;
		memset(ep->conn->client_seq_num, 0x11, 8); memset(ep->conn->server_seq_num, 0x22, 8);
	}
	if (tls_init(ep->conn, &ep->ctx) != 1) return -1;
	if (tls_set_socket(ep->conn, c->fd[side]) != 1) return -1;
#ifdef GMSIM_MSAN
	/* the three staging buffers hold nothing yet: whoever reads them before writing them reads garbage */
	__msan_poison(ep->conn->enced_record, sizeof(ep->conn->enced_record));
	__msan_poison(ep->conn->record, sizeof(ep->conn->record));
	__msan_poison(ep->conn->databuf, sizeof(ep->conn->databuf));
#endif
	net_guard_array(ep->conn->enced_record, sizeof(ep->conn->enced_record), "TLS_CONNECT.enced_record");
	net_guard_array(ep->conn->record, sizeof(ep->conn->record), "TLS_CONNECT.record");
	net_guard_array(ep->conn->databuf, sizeof(ep->conn->databuf), "TLS_CONNECT.databuf");
	return 1;
}

void ep_free(Endpoint *ep)
{
	if (ep->conn) { free(ep->conn); ep->conn = NULL; }
	if (!ep->ctx_of) tls_ctx_cleanup(&ep->ctx);
	ep->ctx_of = NULL;
}

/* a further connection served from the context of an endpoint that is already set up */
int ep_setup_same_ctx(Endpoint *ep, Endpoint *first, Conn *c)
{
	memset(ep, 0, sizeof(*ep));
	ep->side = first->side; ep->c = c; ep->plan = first->plan; ep->node = first->node;
	ep->ctx_of = first;
	rng_seed(&ep->rbuf, (uint64_t)first->plan->plan_seed, 0xbf80 + (uint64_t)first->side + (uint64_t)c->id * 2);
	ep->conn = calloc(1, sizeof(TLS_CONNECT));
	if (!ep->conn) die("oom");
	g_setup_node = ep->node;
	int ok = tls_init(ep->conn, &first->ctx) == 1 && tls_set_socket(ep->conn, c->fd[ep->side]) == 1;
	g_setup_node = -1;
	return ok ? 1 : -1;
}

int ep_send(Endpoint *ep, const uint8_t *buf, size_t len, size_t *sent)
{
	if (ep->plan->proto == P_TLS13) return tls13_send(ep->conn, buf, len, sent);
	return tls_send(ep->conn, buf, len, sent);
}

int ep_recv(Endpoint *ep, uint8_t *buf, size_t len, size_t *got)
{
	if (ep->plan->proto == P_TLS13) return tls13_recv(ep->conn, buf, len, got);
	return tls_recv(ep->conn, buf, len, got);
}

static void io_fail(Endpoint *ep, const char *fmt, ...)
{
	if (ep->io_err) return;
	ep->io_err = 1;
	va_list ap;
	va_start(ap, fmt);
	vsnprintf(ep->io_err_what, sizeof(ep->io_err_what), fmt, ap);
	va_end(ap);
}

#define GUARD 64
static uint8_t g_iobuf[2 * NET_MAX_CONN][50000 + 2 * GUARD];

static int do_write(Endpoint *ep, int dir, uint64_t n, uint64_t wchunk)
{
	uint8_t *buf = g_iobuf[ep - g_ep];
	uint64_t left = n;
	while (left) {
		size_t chunk = (size_t)(wchunk && wchunk < left ? wchunk : left);
		if (chunk > 50000) chunk = 50000;
		payload_fill(dir, ep->wrote[dir], buf, chunk);
		size_t off = 0;
		while (off < chunk) {
			size_t sent = (size_t)-1;
			Pipe *op = &ep->c->pipe[dir];
			int rec_before = op->nrecs;
			int ret = ep_send(ep, buf + off, chunk - off, &sent);
			ep->wr_calls++;
			if (ret == 1 && op->nrecs == rec_before + 1 && ep->nrecmap < MAX_REC) {
				ep->recmap[ep->nrecmap].rec = rec_before;
				ep->recmap[ep->nrecmap].start = ep->wrote[dir];
				ep->recmap[ep->nrecmap].len = (uint32_t)sent;
				ep->nrecmap++;
			}
			if (ret != 1 && ep->plan->efail_at >= 0 && ep->plan->efail_node == ep->node && !ep->plan->efail_rest
			    && (ep->plan->cred_mode & 32) && g_sim.nodes[ep->node].efail_fired && ep->send_retries < 2) {
				/* the one failing entropy draw hit this write: the application simply writes again */
				ep->send_retries++;
				continue;
			}
			if (ret != 1 && chunk - off >= 16) leak_add_secret("decrypted_plaintext", buf + off, chunk - off >= 48 ? 48 : chunk - off);   /* handed to the library, never delivered */
			if (ret != 1) { io_fail(ep, "send ret=%d at byte %llu", ret, (unsigned long long)ep->wrote[dir]); return -1; }
			if (sent == 0 || sent > chunk - off) {
				io_fail(ep, "send sentlen=%zu for inlen=%zu", sent, chunk - off);
				return -1;
			}
			off += sent;
			ep->wrote[dir] += sent;
			sim_trace(EV_APP, (int64_t)sent, dir);
		}
		left -= chunk;
	}
	return 0;
}

/* Read application bytes of direction `dir` until `target` bytes have been
 * received in total (target 0: until EOF or max_calls).  Every delivered byte
 * is compared with the position-coded stream the peer's application wrote.
 * Error returns are tolerated a few times (the caller may be behind a
 * tampering proxy); the scenarios decide what an error means. */
static int do_write(Endpoint *ep, int dir, uint64_t n, uint64_t wchunk);
static struct { int on; uint64_t every, size, base, sent; } g_ack[2 * NET_MAX_CONN];
static int p_proto(const Endpoint *ep) { return (int)ep->plan->proto; }

static int read_until(Endpoint *ep, int dir, uint64_t target, uint64_t rbuf_max, int max_calls)
{
	uint8_t *buf = g_iobuf[ep - g_ep];
	int eagain_spins = 0, calls = 0;
	if (rbuf_max < 1) rbuf_max = 1;
	if (rbuf_max > 20000) rbuf_max = 20000;
	while ((target == 0 || ep->got[dir] < target) && (max_calls == 0 || calls < max_calls)) {
		size_t want = 1 + rng_below(&ep->rbuf, (uint32_t)rbuf_max);
		size_t got = (size_t)-1;
		memset(buf, 0xEE, GUARD);
		memset(buf + GUARD + want, 0xEE, GUARD);
		int ret = ep_recv(ep, buf + GUARD, want, &got);
		ep->rd_calls++;
		calls++;
		if (ret == -EAGAIN && ep->c->knobs.eagain) {
			if (++eagain_spins > 200000) { io_fail(ep, "recv EAGAIN forever"); return -1; }
			sim_retry_wait(1000000);
			calls--;
			continue;
		}
		if (ret == 0) {
			ep->eof_seen = 1;
			if (target) io_fail(ep, "recv EOF after %llu of %llu bytes", (unsigned long long)ep->got[dir], (unsigned long long)target);
			return -1;
		}
		if (ret != 1) {
			ep->recv_errs++;
			if (!ep->first_err_at_set) { ep->first_err_at = ep->got[dir]; ep->first_err_at_set = 1; ep->first_err_ret = ret; }
			if (ep->recv_errs > 6) { io_fail(ep, "recv ret=%d after %llu bytes", ret, (unsigned long long)ep->got[dir]); return -1; }
			continue;
		}
		if (got == 0 && ep->plan->proto == P_TLS13 && (ep->plan->cred_mode & 256)) continue;    /* the peer's empty record: zero bytes, successfully */
		if (got == 0 || got > want) { io_fail(ep, "len_exceeds: recvlen=%zu outlen=%zu", got, want); return -2; }
		for (int g = 0; g < GUARD; g++)
			if (buf[g] != 0xEE || buf[GUARD + want + g] != 0xEE) { io_fail(ep, "len_exceeds: guard bytes overwritten"); return -2; }
		for (size_t k = 0; k < got; k++) {
			if (buf[GUARD + k] != payload_byte(dir, ep->got[dir] + k)) {
				io_fail(ep, "stream_not_prefix: byte %llu differs", (unsigned long long)(ep->got[dir] + k));
				return -3;
			}
		}
		ep->got[dir] += got;
		if (ep->recv_errs) ep->got_after_err += got;
		sim_trace(EV_APP, -(int64_t)got, dir);
		/* TLCP / TLS 1.2 document "receive all buffered data before sending": an application that tries anyway is
		 * refused.  Try now and then (the refusal path is library code like any other); whatever the library answers,
		 * the run goes on — had the byte gone out, the peer's stream check would see it. */
		if (p_proto(ep) != P_TLS13 && ep->conn->datalen > 0 && rng_chance(&ep->rbuf, 1, 12)) {
			size_t sent = 0;
			uint8_t probe = '?';
			ep->refused_sends += tls_send(ep->conn, &probe, 1, &sent) != 1;
		}
		/* acknowledged rounds: write back right away, even if the record is only partly consumed */
		{
			int slot = (int)(ep - g_ep);
			while (g_ack[slot].on && (ep->got[dir] - g_ack[slot].base) / g_ack[slot].every > g_ack[slot].sent) {
				g_ack[slot].sent++;
				uint8_t save[GUARD];
				memcpy(save, buf, GUARD);
				if (do_write(ep, 1 - dir, g_ack[slot].size, 0) != 0) return -1;
				memcpy(buf, save, GUARD);
			}
		}
	}
	return 0;
}

static int do_read(Endpoint *ep, int dir, uint64_t n, uint64_t rbuf_max)
{
	return read_until(ep, dir, ep->got[dir] + n, rbuf_max, 0);
}

/* After the data phase broke on this side: the endpoint still tries to read. */
void ep_drain_after_failure(Endpoint *ep, int max_calls)
{
	int dir = ep->side == 0 ? DIR_S2C : DIR_C2S;
	if (ep->eof_seen || (ep->io_err && strncmp(ep->io_err_what, "send", 4))) return;
	(void)read_until(ep, dir, 0, 4096, max_calls);
}

void ep_task(void *arg)
{
	Endpoint *ep = arg;
	const Plan *p = ep->plan;
	int me_out = ep->side == 0 ? DIR_C2S : DIR_S2C;
	int me_in = ep->side == 0 ? DIR_S2C : DIR_C2S;

	ep->hs_ret = tls_do_handshake(ep->conn);
	ep->hs_returned = 1;
	ep->hs_done_step = g_sim.step;
	ep->hs_done_now = g_sim.now;
	ep->c->hs_phase[ep->side] = 1;
	ep->rd_at_done = ep->c->pipe[me_in].rd;
	sim_trace(EV_APP, 1000 + ep->hs_ret, ep->side);
	if (ep->hs_ret != 1) {
		net_close_end(ep->c, ep->side);
		ep->finished = 1;
		return;
	}
	keysnap_take(&ep->keys, ep->conn);
	ep->draws_at_done = g_sim.nodes[ep->node].draws;
	sim_yield(EV_APP, 2000, ep->side);

	int broken = 0;
	for (int i = 0; i < p->nrounds && !broken; i++) {
		const Round *r = &p->rounds[i];
		if (r->mode == RM_C2S_ACKED || r->mode == RM_S2C_ACKED) {
			int d = r->mode == RM_C2S_ACKED ? DIR_C2S : DIR_S2C;
			uint64_t every = (uint64_t)(r->ack_every > 0 ? r->ack_every : 1), size = (uint64_t)(r->ack_size > 0 ? r->ack_size : 1);
			uint64_t nacks = (uint64_t)r->n[d] / every;
			if (me_out == d) {          /* data writer: write everything, then collect the acknowledgements */
				if (do_write(ep, d, (uint64_t)r->n[d], (uint64_t)r->wchunk[d]) != 0) broken = 1;
				else if (nacks && do_read(ep, 1 - d, nacks * size, (uint64_t)r->rbuf_max[1 - d]) != 0) broken = 1;
			} else {                   /* data reader: acknowledge while reading */
				int slot = (int)(ep - g_ep);
				g_ack[slot].on = 1; g_ack[slot].every = every; g_ack[slot].size = size; g_ack[slot].base = ep->got[d]; g_ack[slot].sent = 0;
				if (do_read(ep, d, (uint64_t)r->n[d], (uint64_t)r->rbuf_max[d]) != 0) broken = 1;
				g_ack[slot].on = 0;
			}
			continue;
		}
		if (p->early_close && i == p->nrounds - 1 && p->closer == ep->side && r->n[me_in] > 0) {
			/* abrupt close: the closing side does not read what the peer is sending in the last round */
			if (r->n[me_out] > 0 && (r->mode == RM_DUPLEX) && do_write(ep, me_out, (uint64_t)r->n[me_out], (uint64_t)r->wchunk[me_out]) != 0) broken = 1;
			break;
		}
		int writes = (r->mode == RM_DUPLEX) || (r->mode == RM_C2S && ep->side == 0) || (r->mode == RM_S2C && ep->side == 1);
		if (writes && p->proto == P_TLS13 && (p->cred_mode & 256) && r->n[me_out] > 0) {
			/* a byte sequence of length zero is a byte sequence: an empty application-data record goes out first;
			 * the reader never notices it */
			size_t sent = 77;
			uint8_t none = 0;
			if (tls13_send(ep->conn, &none, 0, &sent) != 1 || sent != 0) { io_fail(ep, "send of 0 bytes: sent=%zu", sent); broken = 1; }
		}
		if (writes && p->proto == P_TLS13 && (p->cred_mode & 512) && ep->side == 1 && r->n[me_out] > 0 && ep->odd_sent < 4 && !ep->c->knobs.eagain && !broken) {
			/* what a TLS 1.3 server of another stack sends at any time after the handshake (RFC 8446 4.6.1): a
			 * NewSessionTicket, protected with its own write key under its next sequence number.  Only the server does
			 * this here: a server that aborts on a NewSessionTicket from its client would be within its rights. */
			TLS_CONNECT *cn = ep->conn;
			const BLOCK_CIPHER_KEY *wk = cn->is_client ? &cn->client_write_key : &cn->server_write_key;
			const uint8_t *wiv = cn->is_client ? cn->client_write_iv : cn->server_write_iv;
			uint8_t *wseq = cn->is_client ? cn->client_seq_num : cn->server_seq_num;
			uint8_t pt[5 + 24], ct[5 + 24 + 64];
			size_t ctlen = 0;
			pt[0] = TLS_record_handshake; pt[1] = 3; pt[2] = 3; pt[3] = 0; pt[4] = 24;
			pt[5] = TLS_handshake_new_session_ticket; pt[6] = 0; pt[7] = 0; pt[8] = 20;
			for (int k = 0; k < 20; k++) pt[9 + k] = (uint8_t)(0x40 + k + ep->odd_sent);
			if (tls13_record_encrypt(wk, wiv, wseq, pt, sizeof(pt), 0, ct, &ctlen) != 1
				|| tls_record_send(ct, ctlen, cn->sock) != 1) { io_fail(ep, "send of a protected handshake record failed"); broken = 1; }
			else { tls_seq_num_incr(wseq); ep->odd_sent++; }
		}
		int reads = (r->mode == RM_DUPLEX) || (r->mode == RM_C2S && ep->side == 1) || (r->mode == RM_S2C && ep->side == 0);
		if (writes && r->n[me_out] > 0)
			if (do_write(ep, me_out, (uint64_t)r->n[me_out], (uint64_t)r->wchunk[me_out]) != 0) broken = 1;
		if (!broken && reads && r->n[me_in] > 0)
			if (do_read(ep, me_in, (uint64_t)r->n[me_in], (uint64_t)r->rbuf_max[me_in]) != 0) broken = 1;
	}
	if (broken) {
		/* clause 2 of C10 / prefix safety of C11: keep reading, nothing may come */
		ep_drain_after_failure(ep, 4);
		net_close_end(ep->c, ep->side);
		ep->finished = 1;
		return;
	}
	ep->draws_at_data_end = g_sim.nodes[ep->node].draws;
	/* orderly close */
	if (p->closer == ep->side) {
		if (p->proto != P_TLS13) (void)tls_shutdown(ep->conn);
		net_close_end(ep->c, ep->side);
	} else {
		uint8_t *buf = g_iobuf[ep - g_ep];
		size_t got = 0;
		int ret, spins = 0;
		for (;;) {
			ret = ep_recv(ep, buf + GUARD, 1024, &got);
			if (ret == -EAGAIN && ep->c->knobs.eagain && ++spins < 200000) { sim_retry_wait(1000000); continue; }
			break;
		}
		ep->eof_seen = 1;
		ep->eof_ret = ret;
		if (ret == 1) ep->data_after_fail++;
		net_close_end(ep->c, ep->side);
	}
	ep->finished = 1;
}
