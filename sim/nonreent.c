/* libc functions that keep their result in process-wide static storage (POSIX: "need not be thread-safe").
 * libc is not instrumented, so ThreadSanitizer cannot see two threads overwriting that storage.  These
 * link-time wrappers (-Wl,--wrap) make the hidden access visible: each call writes a modelled copy of the
 * static object that the real function is about to overwrite.  This file is compiled WITH the variant's
 * sanitizer, so under TSan two tasks of the threads scenario that both reach e.g. ctime() are reported as
 * a race on `libc_static_tm_buffer`, attributed to the library function that made the call. */
#include <time.h>
#include <string.h>
#include <stdlib.h>
#include <signal.h>
#include <locale.h>
#include <sys/stat.h>
#include <unistd.h>

char *__real_ctime(const time_t *t);
char *__real_asctime(const struct tm *tm);
struct tm *__real_localtime(const time_t *t);
struct tm *__real_gmtime(const time_t *t);
char *__real_strtok(char *s, const char *delim);
int __real_rand(void);
void __real_srand(unsigned int seed);

long libc_static_tm_buffer;          /* struct tm returned by localtime/gmtime, used inside ctime */
long libc_static_asctime_buffer;     /* the 26-byte string returned by ctime/asctime */
long libc_static_strtok_state;
long libc_static_rand_state;

char *__wrap_ctime(const time_t *t) { libc_static_tm_buffer++; libc_static_asctime_buffer++; return __real_ctime(t); }
char *__wrap_asctime(const struct tm *tm) { libc_static_asctime_buffer++; return __real_asctime(tm); }
struct tm *__wrap_localtime(const time_t *t) { libc_static_tm_buffer++; return __real_localtime(t); }
struct tm *__wrap_gmtime(const time_t *t) { libc_static_tm_buffer++; return __real_gmtime(t); }
char *__wrap_strtok(char *s, const char *delim) { libc_static_strtok_state++; return __real_strtok(s, delim); }
int __wrap_rand(void) { libc_static_rand_state++; return __real_rand(); }
void __wrap_srand(unsigned int seed) { libc_static_rand_state++; __real_srand(seed); }

/* Process-wide settings: a library routine that changes one of them (even if it puts the old value back) makes
 * concurrent operations on unrelated objects depend on each other.  Same modelling: one visible write per call. */
typedef void (*sighandler_fn)(int);
sighandler_fn __real_signal(int sig, sighandler_fn h);
int __real_sigaction(int sig, const struct sigaction *act, struct sigaction *old);
int __real_setenv(const char *name, const char *value, int overwrite);
int __real_unsetenv(const char *name);
int __real_putenv(char *s);
char *__real_setlocale(int cat, const char *loc);
mode_t __real_umask(mode_t m);
int __real_chdir(const char *path);

long process_signal_dispositions;
long process_environment;
long process_locale;
long process_umask_cwd;

sighandler_fn __wrap_signal(int sig, sighandler_fn h) { process_signal_dispositions++; return __real_signal(sig, h); }
int __wrap_sigaction(int sig, const struct sigaction *act, struct sigaction *old) { if (act) process_signal_dispositions++; return __real_sigaction(sig, act, old); }
int __wrap_setenv(const char *name, const char *value, int overwrite) { process_environment++; return __real_setenv(name, value, overwrite); }
int __wrap_unsetenv(const char *name) { process_environment++; return __real_unsetenv(name); }
int __wrap_putenv(char *s) { process_environment++; return __real_putenv(s); }
char *__wrap_setlocale(int cat, const char *loc) { if (loc) process_locale++; return __real_setlocale(cat, loc); }
mode_t __wrap_umask(mode_t m) { process_umask_cwd++; return __real_umask(m); }
int __wrap_chdir(const char *path) { process_umask_cwd++; return __real_chdir(path); }
