/* gmsim command line: seeded batch runs, plan generation, replay. */
#define _GNU_SOURCE
#include "gmsim.h"
#include <unistd.h>
#include <sys/personality.h>
#include <inttypes.h>

extern const Scenario g_scn_honest, g_scn_abrupt;
#ifdef HAVE_SCN_MITM
extern const Scenario g_scn_mitm_hs, g_scn_mitm_data;
#endif
#ifdef HAVE_SCN_AUTH
extern const Scenario g_scn_auth;
#endif
#ifdef HAVE_SCN_ENTROPY
extern const Scenario g_scn_entropy;
#endif
#ifdef HAVE_SCN_BYZ
extern const Scenario g_scn_byz;
#endif
#ifdef HAVE_SCN_HTTP
extern const Scenario g_scn_http;
#endif
#ifdef HAVE_SCN_THREADS
extern const Scenario g_scn_threads;
#endif
#ifdef HAVE_SCN_OPS
extern const Scenario g_scn_ops;
#endif

static const Scenario *g_all[] = {
	&g_scn_honest, &g_scn_abrupt,
#ifdef HAVE_SCN_MITM
	&g_scn_mitm_hs, &g_scn_mitm_data,
#endif
#ifdef HAVE_SCN_AUTH
	&g_scn_auth,
#endif
#ifdef HAVE_SCN_ENTROPY
	&g_scn_entropy,
#endif
#ifdef HAVE_SCN_BYZ
	&g_scn_byz,
#endif
#ifdef HAVE_SCN_HTTP
	&g_scn_http,
#endif
#ifdef HAVE_SCN_THREADS
	&g_scn_threads,
#endif
#ifdef HAVE_SCN_OPS
	&g_scn_ops,
#endif
	NULL
};

const Scenario *scenario_find(const char *name)
{
	for (int i = 0; g_all[i]; i++) if (!strcmp(g_all[i]->name, name)) return g_all[i];
	return NULL;
}

const char *__asan_default_options(void) __attribute__((used));
const char *__asan_default_options(void)
{
	return "exitcode=77:detect_leaks=0:abort_on_error=0:malloc_fill_byte=190:max_malloc_fill_size=1048576:free_fill_byte=85:allocator_may_return_null=1";
}
const char *__ubsan_default_options(void) __attribute__((used));
const char *__ubsan_default_options(void) { return "halt_on_error=1:exitcode=77:print_stacktrace=1"; }
/* libc protects its own globals (tzset's cached TZ string, stdio buffers, ...) with internal low-level locks
 * that TSan cannot see, because libc is not instrumented: interceptors (malloc, free, ...) that are entered
 * from inside libc are therefore ignored.  Accesses made by the library under test are unaffected. */
const char *__tsan_default_suppressions(void) __attribute__((used));
const char *__tsan_default_suppressions(void) { return "called_from_lib:libc.so\n"; }
const char *__tsan_default_options(void) __attribute__((used));
const char *__tsan_default_options(void) { return "exitcode=66:halt_on_error=1:report_signal_unsafe=0:history_size=4:suppress_equal_stacks=0:suppress_equal_addresses=0"; }
const char *__msan_default_options(void) __attribute__((used));
const char *__msan_default_options(void) { return "exitcode=77"; }

static uint64_t run_seed_of(uint64_t verif_seed, const char *scenario, uint64_t idx)
{
	uint64_t h = hash_bytes(0x5eed, scenario, strlen(scenario));
	return mix64(mix64(verif_seed) ^ h ^ mix64(idx * 0x9e3779b97f4a7c15ULL + 7));
}

int g_leak_mode;      /* also scan captured output for secrets (C19) */
extern void sim_ambient_entropy_seed(uint64_t);

static void exec_plan(const Scenario *sc, const Plan *p, RunResult *r)
{
	memset(r, 0, sizeof(*r));
	for (int i = 0; i < p->nfaults; i++) r->faults_cfg[p->faults[i].kind]++;
	sc->run(p, r);
	r->fp = g_sim.fp;
	r->ileave = g_sim.ileave;
	r->steps = g_sim.step;
	r->switches = g_sim.switches;
	r->sim_ns = g_sim.now;
}

static void print_result(const char *tag, uint64_t idx, uint64_t seed, const Plan *p, const RunResult *r)
{
	if (getenv("GMSIM_DUMP_STDERR")) {       /* debugging aid: what the library wrote to fd 2 during the run */
		size_t n; const uint8_t *t = cap_map(1, &n);
		fprintf(g_out, "STDERR-BEGIN (%zu bytes)\n", n); fwrite(t, 1, n > 20000 ? 20000 : n, g_out); fprintf(g_out, "\nSTDERR-END\n");
	}
	char leak[400] = "";
	fprintf(g_out, "%s idx=%" PRIu64 " seed=%" PRIu64 " scn=%s ok=%d fp=%016" PRIx64 " il=%016" PRIx64
		" fid=%016" PRIx64 " nt=%d ntid=%016" PRIx64 " steps=%" PRIu64 " sw=%" PRIu64 " simns=%" PRId64 " twinfail=%d",
		tag, idx, seed, p->scenario, !r->violated, r->fp, r->ileave, r->fault_id, r->nontrivial, r->nontrivial_id,
		r->steps, r->switches, r->sim_ns, r->twin_failed);
	fprintf(g_out, " faults=");
	int any = 0;
	for (int k = 1; k < F_NKINDS; k++)
		if (r->faults_cfg[k] || r->faults_fired[k]) {
			fprintf(g_out, "%s%s:%d/%d", any ? "," : "", g_fault_names[k], r->faults_cfg[k], r->faults_fired[k]);
			any = 1;
		}
	if (!any) fprintf(g_out, "-");
	fprintf(g_out, " probes=");
	for (int k = 0; k < PR_NPROBES; k++) fprintf(g_out, "%s%" PRIu64, k ? "," : "", g_sim.probes[k]);
	fprintf(g_out, " extra=\"%s\"", r->extra);
	if (r->violated) fprintf(g_out, " class=%s detail=\"%s\"", r->vclass, r->detail);
	if (g_leak_mode && leak_found(leak, sizeof(leak))) {
		char *bar = strchr(leak, '|');
		if (bar) *bar = 0;
		fprintf(g_out, " leak=%s:%s leakdetail=\"%s\"", leak, p->op ? "op" : g_proto_names[p->proto % 3], bar ? bar + 1 : "");
	}
	fprintf(g_out, "\n");
}

static void dump_plan(const Plan *p)
{
	char *s = plan_to_string(p);
	fprintf(g_out, "PLAN-BEGIN\n%sPLAN-END\n", s);
	free(s);
}

static int usage(void)
{
	fprintf(stderr, "usage: gmsim run <scenario> [--seed S] [--from A] [--count N] [--tier 0|1] [--recheck K] [--leak]\n"
		"       gmsim gen <scenario> [--seed S] [--index I] [--tier T]\n"
		"       gmsim replay <plan-file> [--log file] [--twice] [--leak]\n"
		"       gmsim list\n");
	return 2;
}

int main(int argc, char **argv)
{
	/* stable addresses: uninitialised-memory reads in the library must replay identically */
	if (!getenv("GMSIM_NOASLR_DONE")) {
		int pers = personality(0xffffffff);
		if (pers != -1 && !(pers & ADDR_NO_RANDOMIZE)) {
			if (personality(pers | ADDR_NO_RANDOMIZE) != -1) {
				setenv("GMSIM_NOASLR_DONE", "1", 1);
				execv("/proc/self/exe", argv);
			}
		}
	}
	if (argc < 2) return usage();

	const char *cmd = argv[1];
	const char *target = argc > 2 ? argv[2] : NULL;
	uint64_t seed = 1, from = 0, count = 1, index = 0, recheck = 0;
	int tier = 0, twice = 0;
	const char *logpath = NULL;
	if (getenv("VERIF_SEED")) seed = strtoull(getenv("VERIF_SEED"), NULL, 10);
	for (int i = 3; i < argc; i++) {
		if (!strcmp(argv[i], "--seed") && i + 1 < argc) seed = strtoull(argv[++i], NULL, 10);
		else if (!strcmp(argv[i], "--from") && i + 1 < argc) from = strtoull(argv[++i], NULL, 10);
		else if (!strcmp(argv[i], "--count") && i + 1 < argc) count = strtoull(argv[++i], NULL, 10);
		else if (!strcmp(argv[i], "--index") && i + 1 < argc) index = strtoull(argv[++i], NULL, 10);
		else if (!strcmp(argv[i], "--tier") && i + 1 < argc) tier = atoi(argv[++i]);
		else if (!strcmp(argv[i], "--recheck") && i + 1 < argc) recheck = strtoull(argv[++i], NULL, 10);
		else if (!strcmp(argv[i], "--log") && i + 1 < argc) logpath = argv[++i];
		else if (!strcmp(argv[i], "--twice")) twice = 1;
		else if (!strcmp(argv[i], "--leak")) g_leak_mode = 1;
		else return usage();
	}

	if (!strcmp(cmd, "list")) {
		for (int i = 0; g_all[i]; i++) printf("%s %s\n", g_all[i]->name, g_all[i]->property);
		return 0;
	}
	if (!target) return usage();

	if (!strcmp(cmd, "gen")) {
		const Scenario *sc = scenario_find(target);
		if (!sc) { fprintf(stderr, "unknown scenario %s\n", target); return 2; }
		Plan p;
		cap_init();
		sim_ambient_entropy_seed(0xC0FFEE);
		int K = sc->variants_per_base > 0 ? sc->variants_per_base : 1;
		sc->gen(&p, run_seed_of(seed, sc->name, index / (uint64_t)K), index % (uint64_t)K, tier);
		plan_print(g_out, &p);
		fflush(g_out);
		_exit(0);
	}

	cap_init();
	sim_watchdog_start();
	sim_ambient_entropy_seed(0xC0FFEE);

	if (!strcmp(cmd, "run")) {
		const Scenario *sc = scenario_find(target);
		if (!sc) { fprintf(g_out, "HARNESS-ERROR unknown scenario %s\n", target); return 2; }
		static Plan p; static RunResult r, r2;
		int nviol = 0;
		if (getenv("GMSIM_LOG")) g_sim.log = fopen(getenv("GMSIM_LOG"), "w");
		for (uint64_t idx = from; idx < from + count; idx++) {
			int K = sc->variants_per_base > 0 ? sc->variants_per_base : 1;
			uint64_t rs = run_seed_of(seed, sc->name, idx / (uint64_t)K);
			/* BEGIN comes first: generating a plan may execute the fault-free twin, and a crash there belongs to this index */
			fprintf(g_out, "BEGIN idx=%" PRIu64 " seed=%" PRIu64 "\n", idx, rs);
			sc->gen(&p, rs, idx % (uint64_t)K, tier);
			char ph[64]; snprintf(ph, sizeof(ph), "%s idx=%" PRIu64, sc->name, idx);
			sim_set_phase(ph);
			exec_plan(sc, &p, &r);
			if (g_leak_mode) leak_scan_now(0);
			print_result("RUN", idx, rs, &p, &r);
			char lk[8];
			if (r.violated || (g_leak_mode && leak_found(lk, sizeof(lk)))) { nviol++; dump_plan(&p); }
			if (recheck && idx % recheck == 0) {
				/* the re-execution belongs to the same run: a sanitizer that kills the process here is reporting on it */
				fprintf(g_out, "BEGIN idx=%" PRIu64 " seed=%" PRIu64 " recheck=1\n", idx, rs);
				fflush(g_out);
				exec_plan(sc, &p, &r2);
				fprintf(g_out, "RECHECKED idx=%" PRIu64 "\n", idx);
				/* a run in which the library misbehaved may have consumed uninitialised
				 * memory; its class must be stable, its exact bytes need not be */
				if ((!r.violated && r2.fp != r.fp) || r2.violated != r.violated || strcmp(r2.vclass, r.vclass)) {
					fprintf(g_out, "NONDET idx=%" PRIu64 " fp1=%016" PRIx64 " fp2=%016" PRIx64 " v1=%d v2=%d\n",
						idx, r.fp, r2.fp, r.violated, r2.violated);
					dump_plan(&p);
				}
			}
		}
		fprintf(g_out, "DONE from=%" PRIu64 " count=%" PRIu64 " violations=%d\n", from, count, nviol);
		fflush(g_out);
		_exit(0);
	}

	if (!strcmp(cmd, "replay")) {
		FILE *f = fopen(target, "r");
		if (!f) { fprintf(g_out, "HARNESS-ERROR cannot open %s\n", target); return 2; }
		static Plan p; static RunResult r, r2;
		if (plan_parse(f, &p) != 1) { fprintf(g_out, "HARNESS-ERROR cannot parse plan\n"); return 2; }
		fclose(f);
		const Scenario *sc = scenario_find(p.scenario);
		if (!sc) { fprintf(g_out, "HARNESS-ERROR unknown scenario %s\n", p.scenario); return 2; }
		if (logpath) g_sim.log = fopen(logpath, "w");
		sim_set_phase("replay");
		fprintf(g_out, "BEGIN idx=0 seed=%" PRId64 "\n", p.seed);
		exec_plan(sc, &p, &r);
		if (getenv("GMSIM_DUMP_WIRE")) { FILE *wf = fopen("/tmp/wire1.bin", "w"); fwrite(g_conns[0].pipe[0].sent, 1, g_conns[0].pipe[0].sent_len, wf); fclose(wf); }
		if (g_leak_mode) leak_scan_now(0);
		print_result("RUN", 0, (uint64_t)p.seed, &p, &r);
		if (g_sim.log) { fclose(g_sim.log); g_sim.log = NULL; }
		if (twice) {
			if (logpath) { static char lp2[600]; snprintf(lp2, sizeof(lp2), "%s.2", logpath); g_sim.log = fopen(lp2, "w"); }
			exec_plan(sc, &p, &r2);
			if (getenv("GMSIM_DUMP_WIRE")) { FILE *wf = fopen("/tmp/wire2.bin", "w"); fwrite(g_conns[0].pipe[0].sent, 1, g_conns[0].pipe[0].sent_len, wf); fclose(wf); }
			if (g_sim.log) { fclose(g_sim.log); g_sim.log = NULL; }
			if (r2.fp != r.fp || r2.violated != r.violated)
				fprintf(g_out, "NONDET idx=0 fp1=%016" PRIx64 " fp2=%016" PRIx64 "\n", r.fp, r2.fp);
		}
		fflush(g_out);
		_exit(r.violated ? 1 : 0);
	}
	return usage();
}
