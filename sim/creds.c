/* Credential factory: CA hierarchies and leaves made with the library's own
 * issuing API (mirrors tools/certgen.c and tools/reqsign.c). */
#include "gmsim.h"
#include <gmssl/x509_ext.h>
#include <gmssl/oid.h>

int creds_make_name(const char *cn, uint8_t *name, size_t *namelen)
{
	return x509_name_set(name, namelen, 256, "CN", "Beijing", NULL, "SIM", NULL, cn);
}

int creds_issue(const CertSpec *spec, const SM2_KEY *subject_key, const Ident *issuer, Ident *out)
{
	uint8_t serial[12];
	uint8_t exts[2600];
	size_t extslen = 0;
	const uint8_t *iname; size_t inamelen;
	const SM2_KEY *ikey;
	uint8_t *p;

	out->key = *subject_key;
	if (creds_make_name(spec->cn, out->name, &out->namelen) != 1) return -1;
	if (issuer) { iname = issuer->name; inamelen = issuer->namelen; ikey = &issuer->key; }
	else { iname = out->name; inamelen = out->namelen; ikey = subject_key; }

	if (rand_bytes(serial, sizeof(serial)) != 1) return -1;
	serial[0] &= 0x7f; if (!serial[0]) serial[0] = 1;

	if (spec->key_usage) {
		if (x509_exts_add_key_usage(exts, &extslen, sizeof(exts), X509_critical, spec->key_usage) != 1) return -1;
	}
	if (spec->bc) {
		if (x509_exts_add_basic_constraints(exts, &extslen, sizeof(exts), X509_critical,
			spec->bc == 1 ? 1 : 0, spec->pathlen) != 1) return -1;
	}
	if (spec->pad > 0) {
		uint8_t gns[2400]; size_t gnslen = 0; int left = spec->pad, k = 0;
		while (left > 0) {
			char name[200]; int n = left > 180 ? 180 : left;
			memset(name, 'a' + (k++ % 26), (size_t)n); name[n] = 0;
			if (n > 4) memcpy(name + n - 4, ".sim", 4);
			if (x509_general_names_add_dns_name(gns, &gnslen, sizeof(gns), name) != 1) return -1;
			left -= n;
		}
		if (x509_exts_add_subject_alt_name(exts, &extslen, sizeof(exts), X509_non_critical, gns, gnslen) != 1) return -1;
	}
	if (spec->eku) {
		/* the "rich" leaves also carry inhibitAnyPolicy, so that every extension printer of the library gets its turn
		 * when a verifier dumps a certificate it rejects */
		if (x509_exts_add_inhibit_any_policy(exts, &extslen, sizeof(exts), X509_non_critical, 2) != 1) return -1;
		{
			static const char http[] = "http://crl.sim/ca.crl", ldap[] = "ldap://dir.sim/cn=ca", cai[] = "http://ca.sim/sub.crt", ocsp[] = "http://ocsp.sim/";
			uint8_t gns[128]; size_t gnslen = 0;
			if (x509_exts_add_subject_key_identifier_ex(exts, &extslen, sizeof(exts), X509_non_critical, subject_key) != 1
				|| x509_exts_add_default_authority_key_identifier(exts, &extslen, sizeof(exts), ikey) != 1
				|| x509_exts_add_crl_distribution_points(exts, &extslen, sizeof(exts), X509_non_critical, http, sizeof(http) - 1, ldap, sizeof(ldap) - 1) != 1
				|| x509_exts_add_authority_info_access(exts, &extslen, sizeof(exts), X509_non_critical, cai, sizeof(cai) - 1, ocsp, sizeof(ocsp) - 1) != 1
				|| x509_exts_add_policy_constraints(exts, &extslen, sizeof(exts), X509_non_critical, 1, 1) != 1
				|| x509_general_names_add_dns_name(gns, &gnslen, sizeof(gns), "alt.sim") != 1
				|| x509_exts_add_issuer_alt_name(exts, &extslen, sizeof(exts), X509_non_critical, gns, gnslen) != 1) return -1;
		}
		int kp[1] = { spec->eku == 1 ? OID_kp_server_auth : OID_kp_client_auth };
		if (x509_exts_add_ext_key_usage(exts, &extslen, sizeof(exts), X509_non_critical, kp, 1) != 1) return -1;
	}
	out->certlen = 0;
	p = out->cert;
	size_t need = 0;
	int ver = spec->v1 ? -1 : X509_version_v3;      /* -1: no version field at all, which is how a v1 certificate is encoded */
	if (spec->v1) extslen = 0;
	if (x509_cert_sign_to_der(ver, serial, sizeof(serial), OID_sm2sign_with_sm3,
		iname, inamelen, (time_t)spec->not_before, (time_t)spec->not_after,
		out->name, out->namelen, subject_key, NULL, 0, NULL, 0,
		extslen ? exts : NULL, extslen,
		ikey, SM2_DEFAULT_ID, SM2_DEFAULT_ID_LENGTH, NULL, &need) != 1) return -1;
	if (need > sizeof(out->cert)) return -1;
	if (x509_cert_sign_to_der(ver, serial, sizeof(serial), OID_sm2sign_with_sm3,
		iname, inamelen, (time_t)spec->not_before, (time_t)spec->not_after,
		out->name, out->namelen, subject_key, NULL, 0, NULL, 0,
		extslen ? exts : NULL, extslen,
		ikey, SM2_DEFAULT_ID, SM2_DEFAULT_ID_LENGTH, &p, &out->certlen) != 1) return -1;
	return 1;
}

static void append(uint8_t *buf, size_t *len, const Ident *id)
{
	memcpy(buf + *len, id->cert, id->certlen);
	*len += id->certlen;
}

void creds_chain(const CredSet *cs, int server, uint8_t *out, size_t *outlen)
{
	*outlen = 0;
	if (server) {
		append(out, outlen, &cs->srv_sign);
		if (cs->tlcp) append(out, outlen, &cs->srv_enc);
	} else {
		append(out, outlen, &cs->cli_sign);
	}
	for (int i = 0; i < cs->depth - 1; i++) append(out, outlen, &cs->sub[i]);
}

static int g_build_eku, g_build_pad_srv, g_build_pad_cli;
int creds_build(CredSet *cs, int depth, int tlcp)
{
	SM2_KEY k;
	CertSpec s;
	const int64_t nb = SIM_T0 - 86400, na = SIM_T0 + 365 * 86400LL;

	memset(cs, 0, sizeof(*cs));
	cs->depth = depth; cs->tlcp = tlcp;

	/* root */
	if (sm2_key_generate(&k) != 1) return -1;
	/* the rich variant has a root whose pathLenConstraint is exactly what its chain needs (depth - 1 CAs below it) */
	s = (CertSpec){ "SIM Root CA", 1, g_build_eku ? depth - 1 : -1, X509_KU_KEY_CERT_SIGN | X509_KU_CRL_SIGN, nb - 1460 * 86400LL, na + 1460 * 86400LL };
	if (creds_issue(&s, &k, NULL, &cs->root) != 1) return -1;

	/* intermediates: sub[depth-2] is issued by root, sub[0] issues the leaves */
	const Ident *issuer = &cs->root;
	for (int i = depth - 2; i >= 0; i--) {
		if (sm2_key_generate(&k) != 1) return -1;
		char cn[32];
		snprintf(cn, sizeof(cn), "SIM Sub CA %d", i);
		s = (CertSpec){ cn, 1, i == 0 ? 0 : -1, X509_KU_KEY_CERT_SIGN, nb, na + 86400 * 100 };
		if (creds_issue(&s, &k, issuer, &cs->sub[i]) != 1) return -1;
		issuer = &cs->sub[i];
	}

	if (sm2_key_generate(&k) != 1) return -1;
	s = (CertSpec){ "server.sim", 0, -1, X509_KU_DIGITAL_SIGNATURE, nb, na, g_build_eku ? 1 : 0, 0, g_build_pad_srv };
	if (creds_issue(&s, &k, issuer, &cs->srv_sign) != 1) return -1;
	if (tlcp) {
		if (sm2_key_generate(&k) != 1) return -1;
		s = (CertSpec){ "server.sim", 0, -1, X509_KU_KEY_ENCIPHERMENT, nb, na, g_build_eku ? 1 : 0 };
		if (creds_issue(&s, &k, issuer, &cs->srv_enc) != 1) return -1;
	}
	if (sm2_key_generate(&k) != 1) return -1;
	s = (CertSpec){ "client.sim", 0, -1, X509_KU_DIGITAL_SIGNATURE, nb, na, g_build_eku ? 2 : 0, 0, g_build_pad_cli };
	if (creds_issue(&s, &k, issuer, &cs->cli_sign) != 1) return -1;

	cs->trust_len = 0;
	append(cs->trust, &cs->trust_len, &cs->root);
	creds_chain(cs, 1, cs->srv_chain, &cs->srv_chain_len);
	creds_chain(cs, 0, cs->cli_chain, &cs->cli_chain_len);
	cs->ok = cs->srv_chain_len <= TLS_MAX_CERTIFICATES_SIZE && cs->cli_chain_len <= TLS_MAX_CERTIFICATES_SIZE;
	return 1;
}

const CredSet *creds_get(int depth, int tlcp)
{
	static CredSet cache[4][2];
	static int have[4][2];
	if (depth < 1 || depth > 3) die("bad depth %d", depth);
	if (!have[depth][tlcp]) {
		if (t_task >= 0) die("creds_get(%d,%d) first used inside a task: would draw from the task's entropy stream", depth, tlcp);
		/* the same credentials in every process, whatever was built before */
		sim_ambient_entropy_seed(0xC0FFEE00 + (uint64_t)depth * 2 + (uint64_t)tlcp);
		if (creds_build(&cache[depth][tlcp], depth, tlcp) != 1) die("creds_build failed depth=%d tlcp=%d", depth, tlcp);
		have[depth][tlcp] = 1;
	}
	return &cache[depth][tlcp];
}

const CredSet *creds_get_eku(int depth, int tlcp)
{
	static CredSet cache[4][2];
	static int have[4][2];
	if (depth < 1 || depth > 3) die("bad depth %d", depth);
	if (!have[depth][tlcp]) {
		if (t_task >= 0) die("creds_get_eku(%d,%d) first used inside a task", depth, tlcp);
		sim_ambient_entropy_seed(0xC0FFEE80 + (uint64_t)depth * 2 + (uint64_t)tlcp);
		g_build_eku = 1;
		int ret = creds_build(&cache[depth][tlcp], depth, tlcp);
		g_build_eku = 0;
		if (ret != 1) die("creds_build (eku) failed depth=%d tlcp=%d", depth, tlcp);
		have[depth][tlcp] = 1;
	}
	return &cache[depth][tlcp];
}

/* The client's leaf is a few hundred bytes larger than the server's whole chain (and the other way round at depth 1
 * never happens with equal leaves): lengths of one side's chain must never be used for the other's. */
const CredSet *creds_get_bigclient(int depth, int tlcp)
{
	static CredSet cache[4][2];
	static int have[4][2];
	if (depth < 1 || depth > 3) die("bad depth %d", depth);
	if (!have[depth][tlcp]) {
		if (t_task >= 0) die("creds_get_bigclient first used inside a task");
		sim_ambient_entropy_seed(0xC0FFED00 + (uint64_t)depth * 2 + (uint64_t)tlcp);
		g_build_pad_cli = 120 + 480 * depth;
		int ret = creds_build(&cache[depth][tlcp], depth, tlcp);
		g_build_pad_cli = 0;
		if (ret != 1) die("creds_build (bigclient) failed");
		have[depth][tlcp] = 1;
	}
	return &cache[depth][tlcp];
}

/* Credentials whose chains have exactly the largest size the library admits (minus delta): both the sender's
 * tls_init and the receiver's copy must agree that such a chain is fine. */
const CredSet *creds_get_max(int depth, int tlcp, int delta)
{
	static CredSet cache[4][2][10];
	static int have[4][2][10];       /* 0 not built, 1 ok, -1 size cannot be hit */
	if (depth < 1 || depth > 3 || delta < 0 || delta > 9) die("bad creds_get_max(%d,%d,%d)", depth, tlcp, delta);
	if (!have[depth][tlcp][delta]) {
		if (t_task >= 0) die("creds_get_max first used inside a task");
		CredSet *cs = &cache[depth][tlcp][delta];
		size_t want = TLS_MAX_CERTIFICATES_SIZE - (size_t)delta;
		int ps = 0, pc = 0, ok = 0;
		for (int it = 0; it < 12 && !ok; it++) {
			sim_ambient_entropy_seed(0xC0FFEF00 + (uint64_t)depth * 64 + (uint64_t)tlcp * 32 + (uint64_t)delta);
			g_build_pad_srv = ps; g_build_pad_cli = pc;
			int ret = creds_build(cs, depth, tlcp);
			g_build_pad_srv = g_build_pad_cli = 0;
			if (ret != 1) break;
			long ds = (long)want - (long)cs->srv_chain_len, dc = (long)want - (long)cs->cli_chain_len;
			if (!ds && !dc) { ok = 1; break; }
			/* the first padding costs the extension's own framing; afterwards one character is one byte (until a DER length grows) */
			ps += (int)ds - (ps == 0 && ds > 40 ? 24 : 0); pc += (int)dc - (pc == 0 && dc > 40 ? 24 : 0);
			if (ps < 1) ps = 1;
			if (pc < 1) pc = 1;
		}
		cs->ok = ok;
		have[depth][tlcp][delta] = ok ? 1 : -1;
	}
	return have[depth][tlcp][delta] == 1 ? &cache[depth][tlcp][delta] : NULL;
}

/* ------------------------------------------------------------ defects */
void credopts_init(CredOpts *o, int prover)
{
	memset(o, 0, sizeof(*o));
	o->prover = prover;
	for (int i = 0; i < 2; i++) { o->sub_bc[i] = -1; o->sub_pathlen[i] = -2; o->sub_ku[i] = -1; }
}

/* Build the prover's side again under the same trusted root as `good`, with
 * the defects in `o`; everything the verifier is configured with stays as in
 * `good` (trust anchor, and the other side's chain). */
int creds_derive(const CredSet *good, const CredOpts *o, CredSet *cs)
{
	SM2_KEY k;
	CertSpec s;
	const int64_t nb = SIM_T0 - 86400, na = SIM_T0 + 365 * 86400LL;
	int depth = good->depth, tlcp = good->tlcp;
	Ident top, sub[2], fake_ca;
	const Ident *issuer;

	*cs = *good;
	top = good->root;
	if (o->foreign_root) {
		if (sm2_key_generate(&k) != 1) return -1;
		s = (CertSpec){ o->foreign_root == 1 ? "SIM Root CA" : "Other Root CA", 1, -1,
			X509_KU_KEY_CERT_SIGN | X509_KU_CRL_SIGN, nb - 1460 * 86400LL, na + 1460 * 86400LL };
		if (creds_issue(&s, &k, NULL, &top) != 1) return -1;
	}
	issuer = &top;
	int rebuilt = o->foreign_root != 0;
	for (int i = depth - 2; i >= 0; i--) {
		int changed = rebuilt || o->sub_nb[i] || o->sub_na[i] || o->sub_bc[i] >= 0 || o->sub_pathlen[i] > -2 || o->sub_ku[i] >= 0;
		if (!changed) { sub[i] = good->sub[i]; issuer = &good->sub[i]; continue; }
		if (sm2_key_generate(&k) != 1) return -1;
		char cn[32];
		snprintf(cn, sizeof(cn), "SIM Sub CA %d", i);
		s = (CertSpec){ cn, o->sub_bc[i] >= 0 ? o->sub_bc[i] : 1,
			o->sub_pathlen[i] > -2 ? o->sub_pathlen[i] : (i == 0 ? 0 : -1),
			o->sub_ku[i] >= 0 ? o->sub_ku[i] : X509_KU_KEY_CERT_SIGN,
			o->sub_nb[i] ? o->sub_nb[i] : nb, o->sub_na[i] ? o->sub_na[i] : na + 86400 * 100 };
		if (s.bc != 1) s.pathlen = -1;
		if (creds_issue(&s, &k, issuer, &sub[i]) != 1) return -1;
		issuer = &sub[i];
		rebuilt = 1;
	}
	int extra = 0;
	if (o->issuer_is_leaf) {
		/* an ordinary end-entity certificate (no basicConstraints, digitalSignature only) acting as issuer */
		if (sm2_key_generate(&k) != 1) return -1;
		s = (CertSpec){ "not-a-ca.sim", 0, -1, X509_KU_DIGITAL_SIGNATURE, nb, na };
		if (creds_issue(&s, &k, issuer, &fake_ca) != 1) return -1;
		issuer = &fake_ca;
		extra = 1;
	}
	Ident v1ee, below;
	if (o->issuer_below_v1) {
		if (sm2_key_generate(&k) != 1) return -1;
		s = (CertSpec){ "old-device.sim", 0, -1, 0, nb, na, 0, 1 };
		if (creds_issue(&s, &k, issuer, &v1ee) != 1) return -1;
		if (sm2_key_generate(&k) != 1) return -1;
		s = (CertSpec){ "Self-made CA", 1, 0, X509_KU_KEY_CERT_SIGN, nb, na };
		if (creds_issue(&s, &k, &v1ee, &below) != 1) return -1;
		issuer = &below;
		extra = 2;
	}
	int64_t lnb = o->leaf_nb ? o->leaf_nb : nb, lna = o->leaf_na ? o->leaf_na : na;
	Ident leaf, enc;
	memset(&enc, 0, sizeof(enc));
	if (sm2_key_generate(&k) != 1) return -1;
	s = (CertSpec){ o->prover == 0 ? "server.sim" : "client.sim", 0, -1, X509_KU_DIGITAL_SIGNATURE, lnb, lna };
	if (creds_issue(&s, &k, issuer, &leaf) != 1) return -1;
	if (o->prover == 0 && tlcp) {
		const Ident *enc_issuer = issuer;
		Ident foreign;
		if (o->enc_foreign) {
			SM2_KEY fk;
			if (sm2_key_generate(&fk) != 1) return -1;
			/* same name as the genuine issuer, different key */
			foreign = *issuer;
			foreign.key = fk;
			enc_issuer = &foreign;
		}
		if (sm2_key_generate(&k) != 1) return -1;
		s = (CertSpec){ "server.sim", 0, -1, X509_KU_KEY_ENCIPHERMENT, lnb, lna };
		if (creds_issue(&s, &k, enc_issuer, &enc) != 1) return -1;
	}
	uint8_t *chain = o->prover == 0 ? cs->srv_chain : cs->cli_chain;
	size_t *chain_len = o->prover == 0 ? &cs->srv_chain_len : &cs->cli_chain_len;
	*chain_len = 0;
	append(chain, chain_len, &leaf);
	if (o->prover == 0 && tlcp) append(chain, chain_len, &enc);
	if (extra == 1) append(chain, chain_len, &fake_ca);
	if (extra == 2) { append(chain, chain_len, &below); append(chain, chain_len, &v1ee); }
	for (int i = 0; i < depth - 1; i++) append(chain, chain_len, &sub[i]);
	if (o->root_in_chain) append(chain, chain_len, &top);
	if (o->prover == 0) { cs->srv_sign = leaf; if (tlcp) cs->srv_enc = enc; }
	else cs->cli_sign = leaf;
	cs->ok = *chain_len <= TLS_MAX_CERTIFICATES_SIZE;
	return 1;
}

size_t creds_extra_roots(int n, uint8_t *out, size_t cap)
{
	static Ident roots[8];
	static int have;
	if (!have) {
		int in_setup = g_setup_node;
		if (t_task >= 0) die("creds_extra_roots first used inside a task");
		g_setup_node = -1;                  /* the harness's own key material never comes out of an endpoint's stream */
		sim_ambient_entropy_seed(0xC0FFEE77);
		for (int i = 0; i < 8; i++) {
			SM2_KEY k; char cn[32];
			if (sm2_key_generate(&k) != 1) die("extra roots");
			snprintf(cn, sizeof(cn), "Unrelated Root %d", i);
			CertSpec s = { cn, 1, -1, X509_KU_KEY_CERT_SIGN | X509_KU_CRL_SIGN, SIM_T0 - 1000 * 86400LL, SIM_T0 + 2000 * 86400LL };
			if (creds_issue(&s, &k, NULL, &roots[i]) != 1) die("extra roots issue");
		}
		g_setup_node = in_setup;
		have = 1;
	}
	size_t len = 0;
	for (int i = 0; i < n && i < 8; i++) {
		if (len + roots[i].certlen > cap) break;
		memcpy(out + len, roots[i].cert, roots[i].certlen);
		len += roots[i].certlen;
	}
	return len;
}

/* ------------------------------------------------- a prover that cannot sign */
/* Seam on the signing primitive (-Wl,--wrap=sm2_sign_finish): while armed, every signature made by tasks of
 * one node is replaced by bytes that are not a signature of that key over that message.  Unlike a rewrite on
 * the wire, the prover's own transcript contains what it sent, so only the signature check itself stands
 * between the junk and a completed handshake. */
int g_junk_sig_node = -1, g_junk_sig_form, g_junk_sig_fired;
uint64_t g_junk_sig_seed;
int __real_sm2_sign_finish(SM2_SIGN_CTX *ctx, uint8_t *sig, size_t *siglen);
int __wrap_sm2_sign_finish(SM2_SIGN_CTX *ctx, uint8_t *sig, size_t *siglen)
{
	int ret = __real_sm2_sign_finish(ctx, sig, siglen);
	if (ret != 1 || t_task < 0 || g_junk_sig_node < 0 || sim_cur()->node != g_junk_sig_node) return ret;
	Rng r;
	rng_seed(&r, g_junk_sig_seed + (uint64_t)g_junk_sig_fired, 0x51c);
	g_junk_sig_fired++;
	switch (g_junk_sig_form % 6) {
	case 0: rng_bytes(&r, sig, 64); *siglen = 64; if (sig[0] == 0x30) sig[0] = 0x55; break;          /* raw r || s */
	case 1: sig[0] = 0x04; sig[1] = 64; rng_bytes(&r, sig + 2, 64); *siglen = 66; break;              /* OCTET STRING */
	case 2: sig[0] = 0x00; *siglen = 1; break;                                                        /* a single byte */
	case 3: { /* a well-formed SEQUENCE of two random INTEGERs */
		uint8_t a[32], b[32]; rng_bytes(&r, a, 32); rng_bytes(&r, b, 32); a[0] &= 0x7f; b[0] &= 0x7f; a[0] |= 0x40; b[0] |= 0x40;
		sig[0] = 0x30; sig[1] = 68; sig[2] = 0x02; sig[3] = 32; memcpy(sig + 4, a, 32); sig[36] = 0x02; sig[37] = 32; memcpy(sig + 38, b, 32);
		*siglen = 70; break; }
	case 4: *siglen = 0; break;                                                                       /* empty */
	default: sig[0] = 0x31; break;                                                                    /* the real bytes under a SET tag */
	}
	return 1;
}
