/* Credential factory: CA hierarchies and leaves made with the library's own
 * issuing API (mirrors tools/certgen.c and tools/reqsign.c). */
#include "gmsim.h"
#include <gmssl/x509_ext.h>
#include <gmssl/oid.h>

int creds_make_name(const char *cn, uint8_t *name, size_t *namelen)
{
	return x509_name_set(name, namelen, 256, "CN", "Beijing", NULL, "SIM", NULL, cn);
}

int creds_issue(const CertSpec *spec, const SM2_KEY *subject_key, const Ident *issuer, Ident *out)
{
	uint8_t serial[12];
	uint8_t exts[512];
	size_t extslen = 0;
	const uint8_t *iname; size_t inamelen;
	const SM2_KEY *ikey;
	uint8_t *p;

	out->key = *subject_key;
	if (creds_make_name(spec->cn, out->name, &out->namelen) != 1) return -1;
	if (issuer) { iname = issuer->name; inamelen = issuer->namelen; ikey = &issuer->key; }
	else { iname = out->name; inamelen = out->namelen; ikey = subject_key; }

	if (rand_bytes(serial, sizeof(serial)) != 1) return -1;
	serial[0] &= 0x7f; if (!serial[0]) serial[0] = 1;

	if (spec->key_usage) {
		if (x509_exts_add_key_usage(exts, &extslen, sizeof(exts), X509_critical, spec->key_usage) != 1) return -1;
	}
	if (spec->bc) {
		if (x509_exts_add_basic_constraints(exts, &extslen, sizeof(exts), X509_critical,
			spec->bc == 1 ? 1 : 0, spec->pathlen) != 1) return -1;
	}
	out->certlen = 0;
	p = out->cert;
	size_t need = 0;
	if (x509_cert_sign_to_der(X509_version_v3, serial, sizeof(serial), OID_sm2sign_with_sm3,
		iname, inamelen, (time_t)spec->not_before, (time_t)spec->not_after,
		out->name, out->namelen, subject_key, NULL, 0, NULL, 0,
		extslen ? exts : NULL, extslen,
		ikey, SM2_DEFAULT_ID, SM2_DEFAULT_ID_LENGTH, NULL, &need) != 1) return -1;
	if (need > sizeof(out->cert)) return -1;
	if (x509_cert_sign_to_der(X509_version_v3, serial, sizeof(serial), OID_sm2sign_with_sm3,
		iname, inamelen, (time_t)spec->not_before, (time_t)spec->not_after,
		out->name, out->namelen, subject_key, NULL, 0, NULL, 0,
		extslen ? exts : NULL, extslen,
		ikey, SM2_DEFAULT_ID, SM2_DEFAULT_ID_LENGTH, &p, &out->certlen) != 1) return -1;
	return 1;
}

static void append(uint8_t *buf, size_t *len, const Ident *id)
{
	memcpy(buf + *len, id->cert, id->certlen);
	*len += id->certlen;
}

void creds_chain(const CredSet *cs, int server, uint8_t *out, size_t *outlen)
{
	*outlen = 0;
	if (server) {
		append(out, outlen, &cs->srv_sign);
		if (cs->tlcp) append(out, outlen, &cs->srv_enc);
	} else {
		append(out, outlen, &cs->cli_sign);
	}
	for (int i = 0; i < cs->depth - 1; i++) append(out, outlen, &cs->sub[i]);
}

int creds_build(CredSet *cs, int depth, int tlcp)
{
	SM2_KEY k;
	CertSpec s;
	const int64_t nb = SIM_T0 - 86400, na = SIM_T0 + 365 * 86400LL;

	memset(cs, 0, sizeof(*cs));
	cs->depth = depth; cs->tlcp = tlcp;

	/* root */
	if (sm2_key_generate(&k) != 1) return -1;
	s = (CertSpec){ "SIM Root CA", 1, -1, X509_KU_KEY_CERT_SIGN | X509_KU_CRL_SIGN, nb - 86400, na + 86400 * 1000LL };
	if (creds_issue(&s, &k, NULL, &cs->root) != 1) return -1;

	/* intermediates: sub[depth-2] is issued by root, sub[0] issues the leaves */
	const Ident *issuer = &cs->root;
	for (int i = depth - 2; i >= 0; i--) {
		if (sm2_key_generate(&k) != 1) return -1;
		char cn[32];
		snprintf(cn, sizeof(cn), "SIM Sub CA %d", i);
		s = (CertSpec){ cn, 1, i == 0 ? 0 : -1, X509_KU_KEY_CERT_SIGN, nb, na + 86400 * 100 };
		if (creds_issue(&s, &k, issuer, &cs->sub[i]) != 1) return -1;
		issuer = &cs->sub[i];
	}

	if (sm2_key_generate(&k) != 1) return -1;
	s = (CertSpec){ "server.sim", 0, -1, X509_KU_DIGITAL_SIGNATURE, nb, na };
	if (creds_issue(&s, &k, issuer, &cs->srv_sign) != 1) return -1;
	if (tlcp) {
		if (sm2_key_generate(&k) != 1) return -1;
		s = (CertSpec){ "server.sim", 0, -1, X509_KU_KEY_ENCIPHERMENT, nb, na };
		if (creds_issue(&s, &k, issuer, &cs->srv_enc) != 1) return -1;
	}
	if (sm2_key_generate(&k) != 1) return -1;
	s = (CertSpec){ "client.sim", 0, -1, X509_KU_DIGITAL_SIGNATURE, nb, na };
	if (creds_issue(&s, &k, issuer, &cs->cli_sign) != 1) return -1;

	cs->trust_len = 0;
	append(cs->trust, &cs->trust_len, &cs->root);
	creds_chain(cs, 1, cs->srv_chain, &cs->srv_chain_len);
	creds_chain(cs, 0, cs->cli_chain, &cs->cli_chain_len);
	cs->ok = cs->srv_chain_len <= TLS_MAX_CERTIFICATES_SIZE && cs->cli_chain_len <= TLS_MAX_CERTIFICATES_SIZE;
	return 1;
}

const CredSet *creds_get(int depth, int tlcp)
{
	static CredSet cache[4][2];
	static int have[4][2];
	if (depth < 1 || depth > 3) die("bad depth %d", depth);
	if (!have[depth][tlcp]) {
		if (creds_build(&cache[depth][tlcp], depth, tlcp) != 1) die("creds_build failed depth=%d tlcp=%d", depth, tlcp);
		have[depth][tlcp] = 1;
	}
	return &cache[depth][tlcp];
}
