/* C10 (mitm-hs) and C11 (mitm-data): a record-aware interposer between two
 * honest endpoints executes an explicit fault plan (DESIGN 2.4, 4.3, 4.4). */
#include "gmsim.h"

/* ----------------------------------------------------------- interposer */
typedef struct FaultRt {
	int fired;
	uint64_t fired_step;
	size_t inj_off;        /* offset in the delivered stream of the extra / altered record */
} FaultRt;

static const Plan *g_mp;
static FaultRt g_frt[MAX_FAULTS];
static struct { int active, dir; uint8_t buf[TLS_MAX_RECORD_SIZE + 64]; size_t len; Conn *c; } g_held;
static uint8_t g_lastver[2][2];
void (*g_mitm_byz)(Conn *c, int dir, int idx, const Fault *f, FaultRt *rt, uint8_t *rec, size_t *len, size_t cap);

static void fire(int i, Conn *c, int dir)
{
	if (!g_frt[i].fired) {
		g_frt[i].fired = 1;
		g_frt[i].fired_step = g_sim.step;
		g_frt[i].inj_off = c->pipe[dir].wr;
		g_sim.probes[PR_FAULT_FIRED]++;
		sim_trace(EV_FAULT, g_mp->faults[i].kind, i);
	}
}

static size_t forge(uint8_t *out, int what, int64_t arg, const uint8_t ver[2])
{
	Rng r;
	rng_seed(&r, (uint64_t)arg, 0xf06e);
	size_t n;
	switch (what) {
	case 0: /* fatal alert */
		out[0] = TLS_record_alert; out[1] = ver[0]; out[2] = ver[1]; out[3] = 0; out[4] = 2;
		out[5] = TLS_alert_level_fatal; out[6] = (uint8_t)(arg ? arg : TLS_alert_handshake_failure);
		return 7;
	case 1: /* warning close_notify */
		out[0] = TLS_record_alert; out[1] = ver[0]; out[2] = ver[1]; out[3] = 0; out[4] = 2;
		out[5] = TLS_alert_level_warning; out[6] = TLS_alert_close_notify;
		return 7;
	case 2: /* ChangeCipherSpec */
		out[0] = TLS_record_change_cipher_spec; out[1] = ver[0]; out[2] = ver[1]; out[3] = 0; out[4] = 1; out[5] = 1;
		return 6;
	case 3: /* garbage handshake record */
	case 4: /* garbage application-data record */
		n = 1 + rng_below(&r, 300);
		out[0] = what == 3 ? TLS_record_handshake : TLS_record_application_data;
		out[1] = ver[0]; out[2] = ver[1]; out[3] = (uint8_t)(n >> 8); out[4] = (uint8_t)n;
		rng_bytes(&r, out + 5, n);
		return 5 + n;
	case 6: { /* record whose header announces more than TLS_MAX_CIPHERTEXT_SIZE bytes, with that many bytes following */
		static const size_t big[] = { 18433, 18434, 18437, 18438, 20000, 65535 };
		n = big[(uint64_t)arg % 6];
		out[0] = (arg & 8) ? TLS_record_handshake : TLS_record_application_data;
		out[1] = ver[0]; out[2] = ver[1]; out[3] = (uint8_t)(n >> 8); out[4] = (uint8_t)n;
		rng_bytes(&r, out + 5, 64);
		memset(out + 5 + 64, 0x5a, n - 64);
		return 5 + n; }
	case 8: /* a well-formed CertificateRequest (certificate types {ecdsa_sign}, no CA names) nobody sent */
		out[0] = TLS_record_handshake; out[1] = ver[0]; out[2] = ver[1]; out[3] = 0; out[4] = 8;
		out[5] = TLS_handshake_certificate_request; out[6] = 0; out[7] = 0; out[8] = 4;
		out[9] = 1; out[10] = (arg & 1) ? 1 : 64; out[11] = 0; out[12] = 0;
		return 13;
	case 10: /* empty application-data record */
		out[0] = TLS_record_application_data; out[1] = ver[0]; out[2] = ver[1]; out[3] = 0; out[4] = 0;
		return 5;
	case 9: /* HelloRequest (type 0, empty body) nobody sent */
		out[0] = TLS_record_handshake; out[1] = ver[0]; out[2] = ver[1]; out[3] = 0; out[4] = 4;
		out[5] = 0; out[6] = 0; out[7] = 0; out[8] = 0;
		return 9;
	case 7: { /* a record of legal but large size, with more bytes of the same flight already queued behind it:
		   * a receiver that reads the body in pieces must not ask for more than what is left of it */
		static const size_t body[] = { 9300, 12000, 16384, 17000, 18432 };
		size_t tail = 3000 + rng_below(&r, 9000);
		n = body[(uint64_t)arg % 5];
		out[0] = (arg & 8) ? TLS_record_handshake : TLS_record_application_data;
		out[1] = ver[0]; out[2] = ver[1]; out[3] = (uint8_t)(n >> 8); out[4] = (uint8_t)n;
		rng_bytes(&r, out + 5, 64);
		memset(out + 5 + 64, 0x6b, n - 64 + tail);
		return 5 + n + tail; }
	default: /* empty handshake record */
		out[0] = TLS_record_handshake; out[1] = ver[0]; out[2] = ver[1]; out[3] = 0; out[4] = 0;
		return 5;
	}
}

static int evil_seq(Conn *c, int dir, int idx, uint8_t seq[8]);

static int g_ff_done;
static void inject_after(Conn *c, int dir, int idx)
{
	static uint8_t tmp[65536 + 64];
	for (int i = 0; i < g_mp->nfaults; i++) {
		const Fault *f = &g_mp->faults[i];
		if (f->dir != dir || f->rec != idx) continue;
		if (f->kind == F_INJECT) {
			size_t n = forge(tmp, (int)f->a, f->b, g_lastver[dir]);
			fire(i, c, dir);
			if (f->a == 7 && n > 8000) {
				/* the large record arrives in two pieces: header and the first k body bytes, then the rest
				 * together with what follows it */
				size_t k = 5 + 1 + (size_t)((uint64_t)f->b % 6000);
				net_forward(c, dir, tmp, k);
				net_forward(c, dir, tmp + k, n - k);
			} else
			net_forward(c, dir, tmp, n);
		} else if (f->kind == F_REPLAY) {
			int sd = (int)f->a, sr = (int)f->b;
			Pipe *sp = &c->pipe[sd];
			if (sr >= 0 && sr < sp->nrecs && sr < MAX_REC && sp->recs[sr].off + sp->recs[sr].len <= sp->sent_len) {
				if (f->c >= 8 && f->c <= 63 && sd == dir && !sp->recs[sr].in_hs && g_ep[0].conn && g_ep[1].conn && !g_ff_done) {
					/* at most once per run, and only forwards: evil_seq() counts records and knows nothing of an
					 * earlier fast-forward, and a counter moved BACK to a value already used would make the harness,
					 * not the library, accept an old record (seen with a two-fault plan of the thorough tier) */
					g_ff_done = 1;
					/* long-lived connection: pretend that exactly 2^c records have been exchanged since the
					 * replayed one was sent, by advancing the counters of both endpoints by the same amount */
					uint8_t sq[8]; uint64_t S = 0, E = 0;
					evil_seq(c, sd, sr, sq);
					for (int b = 0; b < 8; b++) S = (S << 8) | sq[b];
					uint8_t *rs = dir == DIR_C2S ? g_ep[1].conn->client_seq_num : g_ep[0].conn->server_seq_num;
					uint8_t *ss = dir == DIR_C2S ? g_ep[0].conn->client_seq_num : g_ep[1].conn->server_seq_num;
					for (int b = 0; b < 8; b++) E = (E << 8) | rs[b];
					uint64_t shift = S + (1ULL << f->c) - E;
					uint8_t *arr[2] = { rs, ss };
					uint64_t SS = 0;
					for (int b = 0; b < 8; b++) SS = (SS << 8) | ss[b];
					/* forwards only, and beyond every record still in flight (sent under numbers E .. SS-1 but not yet
					 * read): were the receiver moved to a number inside that range, a genuine in-flight record would
					 * match it after a few rejected ones and be delivered out of position — the harness's doing */
					int sound = (int64_t)shift > (int64_t)(SS - E) + 8 && SS >= E
						&& g_ep[0].hs_returned && g_ep[1].hs_returned;      /* both ends count records of the same epoch */
					for (int a = 0; a < 2 && sound; a++) {
						uint64_t v = 0;
						for (int b = 0; b < 8; b++) v = (v << 8) | arr[a][b];
						v += shift;
						for (int b = 0; b < 8; b++) arr[a][7 - b] = (uint8_t)(v >> (8 * b));
					}
				}
				fire(i, c, dir);
				net_forward(c, dir, sp->sent + sp->recs[sr].off, sp->recs[sr].len);
			}
		}
	}
}

/* ---- byzantine sender: a correctly protected record with illegal content (C11) ---- */
int tls13_gcm_encrypt(const BLOCK_CIPHER_KEY *key, const uint8_t iv[12], const uint8_t seq_num[8], int record_type,
	const uint8_t *in, size_t inlen, size_t padding_len, uint8_t *out, size_t *outlen);

static int evil_seq(Conn *c, int dir, int idx, uint8_t seq[8])
{
	/* sequence number the sender used for record idx: protected records of this direction before it */
	Pipe *p = &c->pipe[dir];
	uint64_t n = 0;
	for (int i = 0; i < idx && i < p->nrecs && i < MAX_REC; i++) if (!p->recs[i].in_hs) n++;
	if (g_mp->proto != P_TLS13) n += 1;           /* Finished was record 0 under these keys */
	for (int i = 0; i < 8; i++) seq[7 - i] = (uint8_t)(n >> (8 * i));
	return 1;
}

static size_t evil_build(Conn *c, int dir, int idx, int variant, const uint8_t *rec, size_t len, uint8_t *out, size_t cap)
{
	TLS_CONNECT *sc = g_ep[dir == DIR_C2S ? 0 : 1].conn;
	uint8_t seq[8];
	Rng r;
	rng_seed(&r, (uint64_t)variant * 77 + (uint64_t)idx, 0xe71);
	if (!sc || len < 5 || cap < 20000) return 0;
	evil_seq(c, dir, idx, seq);
	if (g_mp->proto == P_TLS13) {
		const BLOCK_CIPHER_KEY *key = dir == DIR_C2S ? &sc->client_write_key : &sc->server_write_key;
		const uint8_t *iv = dir == DIR_C2S ? sc->client_write_iv : sc->server_write_iv;
		static uint8_t zeros[16384];
		static const size_t zl[] = { 0, 1, 255, 4096 };
		size_t olen = 0, n;
		int type = 0;
		const uint8_t *in = zeros;
		static const uint8_t close_notify[2] = { 1, 0 };
		if (variant % 5 == 4) {
			/* a correctly protected close_notify in place of the record: what follows it must not be delivered, and what
			 * was delivered before it is nobody's business on stderr */
			if (tls13_gcm_encrypt(key, iv, seq, TLS_record_alert, close_notify, 2, 0, out + 5, &olen) != 1) return 0;
			out[0] = TLS_record_application_data; out[1] = 3; out[2] = 3; out[3] = (uint8_t)(olen >> 8); out[4] = (uint8_t)olen;
			return 5 + olen;
		}
		switch (variant % 4) {
		case 0: case 1: n = zl[rng_below(&r, 4)]; type = 0; break;          /* inner plaintext all zeros */
		case 2: n = 32; type = 99; in = rec + 5; break;                      /* unknown inner content type */
		default: n = 16384; type = 0; break;                                 /* maximum-size record of zeros */
		}
		/* (a well-formed record of another content type is authentic traffic of a peer that chose
		 * to send it; what the receiver does next is not stated by C11, so it is not generated) */
		if (in != zeros && n > len - 5) n = len - 5;
		if (tls13_gcm_encrypt(key, iv, seq, type, in, n, variant % 4 == 1 ? 7 : 0, out + 5, &olen) != 1) return 0;
		out[0] = TLS_record_application_data; out[1] = 3; out[2] = 3; out[3] = (uint8_t)(olen >> 8); out[4] = (uint8_t)olen;
		return 5 + olen;
	}
	/* SM4-CBC + SM3-HMAC: plaintext = data || MAC || padding with a deliberate defect */
	const SM3_HMAC_CTX *mac_ctx = dir == DIR_C2S ? &sc->client_write_mac_ctx : &sc->server_write_mac_ctx;
	const SM4_KEY *ek = dir == DIR_C2S ? &sc->client_write_enc_key : &sc->server_write_enc_key;
	uint8_t data[64], pt[320], iv[16], hdr[5] = { TLS_record_application_data, rec[1], rec[2], 0, 0 };
	size_t dl = 20, n = 0;
	payload_fill(dir, 0, data, dl);
	rng_bytes(&r, iv, 16);
	if (variant % 3 == 2) {
		/* padding that leaves no (or exactly no) room for data and MAC: sweep the boundary
		 * padding_len in { n-34 .. n-30, n-1 } for n = 48, 64, 80 bytes of plaintext */
		static const int off[] = { 34, 33, 32, 31, 30, 1 };
		n = (size_t[]){ 48, 64, 80 }[(variant / 3) % 3];
		int pl = (int)n - off[(variant / 9 + idx) % 6];
		rng_bytes(&r, pt, n);
		memset(pt + n - (size_t)pl - 1, pl, (size_t)pl + 1);
	} else {
		SM3_HMAC_CTX h = *mac_ctx;
		hdr[3] = 0; hdr[4] = (uint8_t)dl;
		sm3_hmac_update(&h, seq, 8); sm3_hmac_update(&h, hdr, 5); sm3_hmac_update(&h, data, dl);
		memcpy(pt, data, dl); sm3_hmac_finish(&h, pt + dl); n = dl + 32;          /* 52 bytes */
		size_t padlen = 27;                                                      /* 52 + 28 = 80 = 5 blocks */
		if (variant % 3 == 0) memset(pt + n, 0xff, padlen + 1);                   /* length byte larger than the record */
		else {
			/* MAC fine, padding of 12..252 bytes (legal: up to 255) with ONE byte, anywhere in it, inconsistent */
			padlen = 11 + 16 * (size_t)rng_below(&r, 16);
			memset(pt + n, (int)padlen, padlen + 1);
			pt[n + rng_below(&r, (uint32_t)padlen)] ^= (uint8_t)(1u << rng_below(&r, 8));
		}
		n += padlen + 1;
	}
	memcpy(out + 5, iv, 16);
	sm4_cbc_encrypt_blocks(ek, iv, pt, n / 16, out + 5 + 16);
	size_t body = 16 + n;
	out[0] = TLS_record_application_data; out[1] = rec[1]; out[2] = rec[2]; out[3] = (uint8_t)(body >> 8); out[4] = (uint8_t)body;
	return 5 + body;
}

static void mitm_on_record(Conn *c, int dir, int idx, const uint8_t *rec_in, size_t len)
{
	static uint8_t rec[TLS_MAX_RECORD_SIZE + 1024];
	int drop = 0, dup = 0, hold = 0, close_after = 0, crash = 0;
	if (len > TLS_MAX_RECORD_SIZE + 256) { net_forward(c, dir, rec_in, len); return; }
	memcpy(rec, rec_in, len);
	g_lastver[dir][0] = rec[1]; g_lastver[dir][1] = rec[2];
	if (idx == 0) inject_after(c, dir, -1);

	for (int i = 0; i < g_mp->nfaults; i++) {
		const Fault *f = &g_mp->faults[i];
		if (f->dir != dir || f->rec != idx) continue;
		switch (f->kind) {
		case F_FLIP:
			if ((size_t)f->off < len) { fire(i, c, dir); rec[f->off] ^= (uint8_t)(1u << (f->bit & 7)); }
			break;
		case F_DROP: fire(i, c, dir); drop = 1; break;
		case F_DUP: fire(i, c, dir); g_frt[i].inj_off = c->pipe[dir].wr + len; dup = 1; break;
		case F_SWAP: fire(i, c, dir); hold = 1; break;
		case F_TRUNC:
			if (f->off >= 1 && (size_t)f->off < len) {
				fire(i, c, dir);
				len = (size_t)f->off;
				if (f->bit && len >= 5) { rec[3] = (uint8_t)((len - 5) >> 8); rec[4] = (uint8_t)(len - 5); }
				close_after = (int)f->a;
			}
			break;
		case F_EXTEND: {
			size_t k = (size_t)f->off;
			if (k >= 1 && k <= 512) {
				Rng r; rng_seed(&r, (uint64_t)f->a, 0xe87);
				fire(i, c, dir);
				if (!f->bit) g_frt[i].inj_off = c->pipe[dir].wr + len;   /* record intact, garbage follows it */
				rng_bytes(&r, rec + len, k);
				len += k;
				if (f->bit) { rec[3] = (uint8_t)((len - 5) >> 8); rec[4] = (uint8_t)(len - 5); }
			}
			break; }
		case F_CRASH:
			if (f->off >= 0 && (size_t)f->off < len) { fire(i, c, dir); len = (size_t)f->off; crash = 1; }
			break;
		case F_EVIL: {
			static uint8_t ev[TLS_MAX_RECORD_SIZE + 4096];
			size_t n = evil_build(c, dir, idx, (int)f->a, rec, len, ev, sizeof(ev));
			if (n && n <= sizeof(rec)) { fire(i, c, dir); memcpy(rec, ev, n); len = n; }
			break; }
		case F_MUT:
			if (g_mitm_byz) g_mitm_byz(c, dir, idx, f, &g_frt[i], rec, &len, sizeof(rec));
			else if (rec[0] == TLS_record_handshake) {
				/* an EC point (x, y) in a plaintext handshake message becomes (x, p - y): still on the curve, same x —
				 * whatever is derived from x alone is unchanged, only a transcript or a signature can notice */
				for (size_t k = 5; k + 66 <= len; k++) {
					if (rec[k] != 65 || rec[k + 1] != 4) continue;
					sm2_z256_t y, ny; SM2_Z256_POINT pt;
					if (sm2_z256_point_from_bytes(&pt, rec + k + 2) != 1) continue;       /* not a point: some other 0x41 0x04 */
					sm2_z256_from_bytes(y, rec + k + 2 + 32);
					sm2_z256_sub(ny, sm2_z256_prime(), y);
					sm2_z256_to_bytes(ny, rec + k + 2 + 32);
					fire(i, c, dir);
					break;
				}
			}
			break;
		default: break;
		}
	}
	if (hold && !g_held.active) {
		memcpy(g_held.buf, rec, len); g_held.len = len; g_held.dir = dir; g_held.active = 1; g_held.c = c;
	} else if (!drop) {
		if (len) net_forward(c, dir, rec, len);
		if (dup) net_forward(c, dir, rec, len);
		if (g_held.active && g_held.dir == dir) {
			net_forward(c, dir, g_held.buf, g_held.len);
			g_held.active = 0;
		}
	}
	if (crash) { net_close_end(c, dir == DIR_C2S ? 0 : 1); return; }
	if (close_after) { c->pipe[dir].closed_wr = 1; return; }
	inject_after(c, dir, idx);
}

static int mitm_release_held(void)
{
	if (!g_held.active) return 0;
	net_forward(g_held.c, g_held.dir, g_held.buf, g_held.len);
	g_held.active = 0;
	return 1;
}

static void mitm_begin(const Plan *p)
{
	g_mp = p; g_ff_done = 0;
	memset(g_frt, 0, sizeof(g_frt));
	g_held.active = 0;
	memset(g_lastver, 3, sizeof(g_lastver));
	g_quiesce_hook = mitm_release_held;
}

/* ------------------------------------------------------------ twin runs */
typedef struct Twin { uint64_t key; int ok; char why[160]; HonestOut o; uint64_t fp; } Twin;
static Twin g_twin[2];        /* tiny cache: generation and execution alternate between bases */
static int g_twin_next;

static uint64_t plan_key_nofaults(const Plan *p)
{
	Plan q = *p;
	q.nfaults = 0;
	memset(q.faults, 0, sizeof(q.faults));
	memset(q.scenario, 0, sizeof(q.scenario));
	return hash_bytes(0x7717, &q, sizeof(q));
}

static const Twin *twin_get(const Plan *p)
{
	uint64_t key = plan_key_nofaults(p);
	for (int i = 0; i < 2; i++) if (g_twin[i].key == key && key) return &g_twin[i];
	Twin *t = &g_twin[g_twin_next];
	g_twin_next ^= 1;
	static Plan q;
	q = *p;
	q.nfaults = 0;
	q.interpose = 1;
	RunResult rr;
	memset(&rr, 0, sizeof(rr));
	mitm_begin(&q);
	conn_run(&q, creds_get((int)q.depth, q.proto == P_TLCP), &t->o, mitm_on_record, NULL);
	g_quiesce_hook = NULL;
	honest_oracle(&q, &t->o, &rr);
	t->key = key;
	t->ok = !rr.violated;
	t->fp = g_sim.fp;
	snprintf(t->why, sizeof(t->why), "%s: %s", rr.vclass, rr.detail);
	return t;
}

/* ----------------------------------------------------------- generation */
static int pick_weighted(Rng *g, const int *w, int n)
{
	int tot = 0;
	for (int i = 0; i < n; i++) tot += w[i];
	int x = (int)rng_below(g, (uint32_t)tot);
	for (int i = 0; i < n; i++) { if (x < w[i]) return i; x -= w[i]; }
	return n - 1;
}

/* collect candidate records: in_hs selects handshake-phase or data-phase records */
typedef struct Cand { int dir, rec; size_t len; uint8_t type; } Cand;
static int collect(const HonestOut *o, int want_hs, int app_only, Cand *out, int max)
{
	int n = 0;
	for (int d = 0; d < 2; d++)
		for (int i = 0; i < o->nrecs[d] && n < max; i++) {
			const RecInfo *r = &o->recs[d][i];
			if ((r->in_hs != 0) != (want_hs != 0)) continue;
			if (app_only && r->type != TLS_record_application_data) continue;
			out[n].dir = d; out[n].rec = i; out[n].len = r->len; out[n].type = r->type;
			n++;
		}
	return n;
}

static int same_flight(const HonestOut *o, int d, int rec)
{
	if (rec + 1 >= o->nrecs[d]) return 0;
	uint64_t a = o->recs[d][rec].step, b = o->recs[d][rec + 1].step;
	for (int i = 0; i < o->nrecs[1 - d]; i++)
		if (o->recs[1 - d][i].step > a && o->recs[1 - d][i].step < b) return 0;
	return 1;
}

static void gen_fault_hs(Fault *f, Rng *g, const HonestOut *o)
{
	static Cand c[2 * MAX_REC];
	int n = collect(o, 1, 0, c, 2 * MAX_REC);
	memset(f, 0, sizeof(*f));
	if (!n) return;
	static const int w[F_NKINDS] = { 0, 58, 8, 8, 6, 3, 6, 3, 5, 3, 0, 3 };    /* indexed by fault kind */
	int kind = pick_weighted(g, w, F_NKINDS);
	Cand *t = &c[rng_below(g, (uint32_t)n)];
	f->kind = kind; f->dir = t->dir; f->rec = t->rec;
	switch (kind) {
	case F_FLIP:
		f->off = 5 + (int64_t)rng_below(g, (uint32_t)(t->len > 5 ? t->len - 5 : 1));
		f->bit = rng_below(g, 8);
		break;
	case F_SWAP:
		for (int tries = 0; tries < 20 && !(same_flight(o, f->dir, (int)f->rec) && o->recs[f->dir][f->rec + 1].in_hs); tries++) {
			t = &c[rng_below(g, (uint32_t)n)];
			f->dir = t->dir; f->rec = t->rec;
		}
		if (!(same_flight(o, f->dir, (int)f->rec) && o->recs[f->dir][f->rec + 1].in_hs)) f->kind = F_DROP;
		break;
	case F_TRUNC:
		f->off = 1 + (int64_t)rng_below(g, (uint32_t)(t->len - 1));
		f->bit = rng_below(g, 2);
		f->a = rng_below(g, 2);
		break;
	case F_EXTEND:
		f->off = 1 + rng_below(g, 64);
		f->bit = rng_below(g, 2);
		f->a = (int64_t)(rng_u64(g) >> 1);
		break;
	case F_INJECT:
		if (rng_chance(g, 1, 8)) f->rec = -1;
		f->a = rng_below(g, 11);
		f->b = (int64_t)(rng_u64(g) >> 40);
		if (f->a == 0) f->b = (int64_t[]){ 0, 10, 20, 40, 47, 80 }[rng_below(g, 6)];
		/* a ChangeCipherSpec right after a Hello is where "middlebox compatibility" (RFC 8446 D.4) puts one: this
		 * library neither sends nor announces it, so here it is an injected record like any other */
		if (rng_chance(g, 1, 5)) { f->a = 2; f->dir = (int)rng_below(g, 2); f->rec = 0; }
		break;
	case F_REPLAY: {
		/* copy of any record already on the wire (either direction) when the target passes */
		int sd = (int)rng_below(g, 2);
		uint64_t tstep = o->recs[f->dir][f->rec].step;
		int cnt = 0;
		for (int i = 0; i < o->nrecs[sd]; i++) if (o->recs[sd][i].step <= tstep) cnt++;
		if (!cnt) { sd = f->dir; cnt = (int)f->rec + 1; }
		f->a = sd; f->b = rng_below(g, (uint32_t)cnt);
		break; }
	case F_CRASH:
		f->off = rng_below(g, (uint32_t)t->len);
		break;
	default: break;
	}
}

static void mitm_hs_gen(Plan *p, uint64_t base_seed, uint64_t variant, int tier)
{
	Rng g, v;
	plan_init(p, "mitm-hs");
	p->seed = (int64_t)base_seed;
	rng_seed(&g, base_seed, 0x402);
	gen_common(p, &g, tier);
	p->interpose = 1;
	gen_rounds(p, &g, tier, 2, 1500);
	/* make sure each side both writes and reads after the handshake */
	if (p->nrounds == 1 && p->rounds[0].mode != RM_DUPLEX) {
		Round *r = &p->rounds[p->nrounds++];
		*r = p->rounds[0];
		r->mode = 1 - p->rounds[0].mode;
		r->n[0] = p->rounds[0].n[1]; r->n[1] = p->rounds[0].n[0];
		r->wchunk[0] = p->rounds[0].wchunk[1]; r->wchunk[1] = p->rounds[0].wchunk[0];
		r->rbuf_max[0] = p->rounds[0].rbuf_max[1]; r->rbuf_max[1] = p->rounds[0].rbuf_max[0];
	}
	if (getenv("GMSIM_GEN_NOTWIN")) return;      /* plan without faults: lets a crash inside the twin be replayed */
	const Twin *tw = twin_get(p);
	if (!tw->ok) return;
	rng_seed(&v, base_seed ^ mix64(variant + 1), 0x403);
	p->nfaults = (tier && rng_chance(&v, 1, 10)) ? 2 : 1;
	for (int i = 0; i < p->nfaults; i++) gen_fault_hs(&p->faults[i], &v, &tw->o);
}

__attribute__((unused)) static int additive(const Fault *f)
{
	return f->kind == F_DUP || f->kind == F_INJECT || f->kind == F_REPLAY || (f->kind == F_EXTEND && !f->bit);
}

static uint64_t fault_id(const Plan *p)
{
	uint64_t h = 0xfa17 + (uint64_t)p->proto * 7 + (uint64_t)p->mutual * 3 + (uint64_t)p->depth;
	for (int i = 0; i < p->nfaults; i++) {
		const Fault *f = &p->faults[i];
		int64_t v[8] = { f->kind, f->dir, f->rec, f->off, f->bit, f->a, f->b, f->c };
		h = hash_bytes(h, v, sizeof(v));
	}
	return h;
}

static void count_faults(const Plan *p, RunResult *r, int *any)
{
	*any = 0;
	for (int i = 0; i < p->nfaults; i++)
		if (g_frt[i].fired) { r->faults_fired[p->faults[i].kind]++; *any = 1; }
}

static const char *region_hs(const HonestOut *tw, const Fault *f)
{
	(void)tw;
	if (f->kind != F_FLIP) return "-";
	return f->off < 9 ? "msg_header" : "msg_body";
}

static void mitm_hs_run(const Plan *p, RunResult *r)
{
	static HonestOut o;
	const Twin *tw = twin_get(p);
	if (!tw->ok) {
		r->twin_failed = 1;
		snprintf(r->extra, sizeof(r->extra), "twin_failed=\"%s\"", tw->why);
		return;
	}
	mitm_begin(p);
	conn_run(p, creds_get((int)p->depth, p->proto == P_TLCP), &o, mitm_on_record, NULL);
	g_quiesce_hook = NULL;

	int any;
	count_faults(p, r, &any);
	r->fault_id = fault_id(p);
	r->nontrivial = any;
	r->nontrivial_id = r->fault_id;
	int hsbytes = 0, hsrecs = 0;
	for (int d = 0; d < 2; d++)
		for (int i = 0; i < tw->o.nrecs[d]; i++)
			if (tw->o.recs[d][i].in_hs) { hsbytes += (int)tw->o.recs[d][i].len - 5; hsrecs++; }
	snprintf(r->extra, sizeof(r->extra), "proto=%s mutual=%d depth=%d hsrecs=%d hsbytes=%d kind=%s dir=%d rec=%d off=%d done=%d/%d",
		g_proto_names[p->proto], (int)p->mutual, (int)p->depth, hsrecs, hsbytes,
		p->nfaults ? g_fault_names[p->faults[0].kind] : "none", p->nfaults ? p->faults[0].dir : 0,
		p->nfaults ? (int)p->faults[0].rec : 0, p->nfaults ? (int)p->faults[0].off : 0, o.hs_ret[0], o.hs_ret[1]);

	if (o.step_capped) { rr_violation(r, "no_termination", "step cap reached under faults"); return; }
	if (!any) return;

	const char *k0 = g_fault_names[p->faults[0].kind];
	/* clause 1 */
	if (o.hs_ret[0] == 1 && o.hs_ret[1] == 1) {
		/* both completed: a violation exactly if the net effect of the faults changed any byte that a
		 * receiver consumed during its handshake.  (Faults that cancel each other, and records added
		 * after the receiver had completed, leave that prefix identical.) */
		int excused = !o.hs_stream_tampered[0] && !o.hs_stream_tampered[1];
		if (!excused) {
			rr_violation(r, "both_complete", "proto=%s mutual=%d fault=%s dir=%d rec=%d off=%d bit=%d region=%s: client and server both completed",
				g_proto_names[p->proto], (int)p->mutual, k0, p->faults[0].dir, (int)p->faults[0].rec,
				(int)p->faults[0].off, (int)p->faults[0].bit, region_hs(&tw->o, &p->faults[0]));
			snprintf(r->vclass, sizeof(r->vclass), "both_complete:%s:%s", g_proto_names[p->proto], k0);
			return;
		}
	}
	/* clause 2 */
	for (int s = 0; s < 2; s++) {
		int in = s == 0 ? DIR_S2C : DIR_C2S;
		if (o.hs_ret[s] == 1 && o.hs_ret[1 - s] != 1 && (o.got[in] > 0 || o.data_after_fail[s])) {
			rr_violation(r, "data_after_fail", "proto=%s fault=%s: %s completed alone and then accepted %llu application bytes",
				g_proto_names[p->proto], k0, s ? "server" : "client", (unsigned long long)o.got[in]);
			snprintf(r->vclass, sizeof(r->vclass), "data_after_fail:%s:%s", g_proto_names[p->proto], k0);
			return;
		}
	}
	for (int s = 0; s < 2; s++) {
		if (o.io_err[s] && (!strncmp(o.io_err_what[s], "stream_not_prefix", 17) || !strncmp(o.io_err_what[s], "len_exceeds", 11))) {
			rr_violation(r, "data_after_fail", "proto=%s fault=%s: %s: %s", g_proto_names[p->proto], k0, s ? "server" : "client", o.io_err_what[s]);
			snprintf(r->vclass, sizeof(r->vclass), "bad_data_accepted:%s:%s", g_proto_names[p->proto], k0);
			return;
		}
	}
	char what[256];
	if (mon_state_violation(what, sizeof(what))) rr_violation(r, "state_corrupt", "%s", what);
}

const Scenario g_scn_mitm_hs = { "mitm-hs", "C10", 24, mitm_hs_gen, mitm_hs_run };

/* ---------------------------------------------------------------- C11 */
static void gen_fault_data(Fault *f, Rng *g, const HonestOut *o, int proto)
{
	static Cand c[2 * MAX_REC];
	int n = collect(o, 0, 1, c, 2 * MAX_REC);
	memset(f, 0, sizeof(*f));
	if (!n) return;
	static const int w[F_NKINDS] = { 0, 48, 7, 8, 6, 6, 7, 5, 4, 0, 9, 0 };
	int kind = pick_weighted(g, w, F_NKINDS);
	Cand *t = &c[rng_below(g, (uint32_t)n)];
	{
		/* a direction that carries more than 257 records is rare and is there for one reason: spend a
		 * quarter of its plans on replays across a multiple of 256 records (target in its tail) */
		int per[2] = { 0, 0 }, tail[2] = { -1, -1 };
		for (int i = 0; i < n; i++) if (++per[c[i].dir] > 257 && tail[c[i].dir] < 0) tail[c[i].dir] = i;
		int ld = per[0] > 257 ? 0 : per[1] > 257 ? 1 : -1;
		if (ld >= 0 && rng_chance(g, 1, 4)) {
			int cand[2 * MAX_REC], nc = 0;
			for (int i = tail[ld]; i < n; i++) if (c[i].dir == ld) cand[nc++] = i;
			if (nc) { kind = F_REPLAY; t = &c[cand[rng_below(g, (uint32_t)nc)]]; }
		}
	}
	f->kind = kind; f->dir = t->dir; f->rec = t->rec;
	size_t len = t->len;
	if (kind == F_EVIL) f->a = rng_below(g, 54);
	switch (kind) {
	case F_FLIP: {
		/* stratified over regions of the protected record */
		int region = (int)rng_below(g, 8);
		size_t off;
		switch (region) {
		case 0: off = rng_chance(g, 1, 2) ? 0 : rng_below(g, 5); break;          /* header, half of them the content type */
		case 1: off = 5 + rng_below(g, 16); break;                              /* explicit IV / first block */
		case 2: off = len - 1; break;                                           /* last byte (padding length / tag) */
		case 3: off = len - 1 - rng_below(g, len > 48 ? 48 : (uint32_t)len - 5); break;  /* MAC / padding / tag region */
		case 4: off = 3 + rng_below(g, 2); break;                               /* length field */
		default: off = 5 + rng_below(g, (uint32_t)(len - 5)); break;            /* anywhere in the body */
		}
		if (off >= len) off = len - 1;
		f->off = (int64_t)off;
		f->bit = rng_below(g, 8);
		if (off == 0 && rng_chance(g, 1, 2)) f->bit = rng_below(g, 2);             /* 23 -> 22 (handshake) / 21 (alert) */
		(void)proto;
		break; }
	case F_SWAP:
		for (int tries = 0; tries < 20; tries++) {
			int ok = f->rec + 1 < o->nrecs[f->dir] && !o->recs[f->dir][f->rec + 1].in_hs
				&& o->recs[f->dir][f->rec + 1].type == TLS_record_application_data && same_flight(o, f->dir, (int)f->rec);
			if (ok) break;
			t = &c[rng_below(g, (uint32_t)n)];
			f->dir = t->dir; f->rec = t->rec;
		}
		if (!(f->rec + 1 < o->nrecs[f->dir] && same_flight(o, f->dir, (int)f->rec))) f->kind = F_DUP;
		break;
	case F_TRUNC: {
		static const int cut[] = { 1, 2, 15, 16, 17, 32 };
		size_t k = rng_chance(g, 1, 2) ? (size_t)cut[rng_below(g, 6)] : 1 + rng_below(g, 32);
		if (k >= len) k = len - 1;
		f->off = (int64_t)(len - k);
		f->bit = rng_below(g, 2);
		f->a = rng_below(g, 2);
		if (rng_chance(g, 1, 4) && len > 22) {
			/* the sender dies early in the record: right after the header, inside the first block, half way */
			size_t early[] = { 5, 6, 5 + 16, len / 2 };
			f->off = (int64_t)early[rng_below(g, 4)];
			f->bit = 0; f->a = 1;
		}
		break; }
	case F_EXTEND: {
		static const int add[] = { 1, 15, 16, 17, 32 };
		f->off = rng_chance(g, 1, 2) ? add[rng_below(g, 5)] : 1 + (int64_t)rng_below(g, 32);
		f->bit = rng_below(g, 2);
		f->a = (int64_t)(rng_u64(g) >> 1);
		break; }
	case F_REPLAY: {
		/* an earlier application record of the same direction, re-sent after a later one */
		int cnt = 0, idxs[MAX_REC];
		for (int i = 0; i <= f->rec && i < o->nrecs[f->dir]; i++)
			if (!o->recs[f->dir][i].in_hs) idxs[cnt++] = i;
		f->a = f->dir;
		f->b = cnt ? idxs[rng_below(g, (uint32_t)cnt)] : f->rec;
		if (rng_chance(g, 1, 4)) {
			/* reflection: a record the receiver itself sent comes back to it, the one that carries the sequence
			 * number it expects next from its peer (same count of protected records in the other direction).
			 * Any target after which such a record exists will do. */
			int start = (int)rng_below(g, (uint32_t)n), found = 0;
			for (int t2 = 0; t2 < n && !found; t2++) {
				const Cand *tt = &c[(start + t2) % n];
				int od = 1 - tt->dir, k = 0, cn = 0;
				for (int i = 0; i <= tt->rec && i < o->nrecs[tt->dir]; i++) if (!o->recs[tt->dir][i].in_hs) cn++;
				for (int i = 0; i < o->nrecs[od]; i++) {
					if (o->recs[od][i].in_hs || o->recs[od][i].type != TLS_record_application_data) continue;
					if (k == cn && o->recs[od][i].step <= o->recs[tt->dir][tt->rec].step) { f->dir = tt->dir; f->rec = tt->rec; f->a = od; f->b = i; found = 1; break; }
					k++;
				}
			}
			if (found) break;
		}
		if (cnt > 257 && rng_chance(g, 1, 2)) {
			/* long-lived direction: replay the record sent exactly 256 (512, ...) records before the one the receiver
			 * expects next — equal in every byte of the sequence number but the ones above the lowest */
			int back = 256 * (1 + (int)rng_below(g, (uint32_t)((cnt - 1) / 256)));
			f->b = idxs[cnt - back];         /* idxs[cnt-1] == f->rec; the receiver expects number cnt next */
		}
		if (rng_chance(g, 1, 3)) f->c = (int64_t[]){ 8, 16, 24, 31, 32, 40, 48, 56, 63 }[rng_below(g, 9)];   /* replay across 2^c records */
		if (rng_chance(g, 1, 6)) {            /* or a protected handshake record (old keys) */
			int h = 0;
			for (int i = 0; i < o->nrecs[f->dir]; i++) if (o->recs[f->dir][i].in_hs) h = i;
			f->b = h;
		}
		break; }
	case F_INJECT:
		f->a = 4; f->b = (int64_t)(rng_u64(g) >> 40);
		if (rng_chance(g, 1, 3)) { f->a = rng_below(g, 3); f->b = 0; }
		break;
	default: break;
	}
}

static void mitm_data_gen(Plan *p, uint64_t base_seed, uint64_t variant, int tier)
{
	Rng g, v;
	plan_init(p, "mitm-data");
	p->seed = (int64_t)base_seed;
	rng_seed(&g, base_seed, 0x404);
	gen_common(p, &g, tier);
	p->interpose = 1;
	gen_rounds(p, &g, tier, tier ? 5 : 3, tier ? 40000 : 20000);
	if (getenv("GMSIM_GEN_NOTWIN")) return;      /* plan without faults: lets a crash inside the twin be replayed */
	const Twin *tw = twin_get(p);
	if (!tw->ok) return;
	rng_seed(&v, base_seed ^ mix64(variant + 1), 0x405);
	p->nfaults = (tier && rng_chance(&v, 1, 10)) ? 2 : 1;
	for (int i = 0; i < p->nfaults; i++) gen_fault_data(&p->faults[i], &v, &tw->o, (int)p->proto);
}

static const char *region_data(const Fault *f, size_t reclen, int proto)
{
	if (f->kind == F_EVIL) {
		if (proto == P_TLS13 && f->a % 5 == 4) return "protected_close_notify";
		if (proto == P_TLS13) return (const char *[]){ "inner_all_zero", "inner_all_zero_padded", "inner_type_unknown", "inner_all_zero_16384" }[f->a % 4];
		return (const char *[]){ "padlen_exceeds_record", "padding_inconsistent", "padding_leaves_no_room" }[f->a % 3];
	}
	if (f->kind != F_FLIP) return "-";
	if (f->off == 0) return "hdr_type";
	if (f->off < 3) return "hdr_version";
	if (f->off < 5) return "hdr_length";
	if (proto == P_TLS13) return (size_t)f->off >= reclen - 16 ? "tag" : "body";
	if (f->off < 21) return "iv";
	if ((size_t)f->off == reclen - 1) return "last_byte";
	if ((size_t)f->off >= reclen - 48) return "mac_pad";
	return "body";
}

static void mitm_data_run(const Plan *p, RunResult *r)
{
	static HonestOut o;
	const Twin *tw = twin_get(p);
	if (!tw->ok) {
		r->twin_failed = 1;
		snprintf(r->extra, sizeof(r->extra), "twin_failed=\"%s\"", tw->why);
		return;
	}
	mitm_begin(p);
	conn_run(p, creds_get((int)p->depth, p->proto == P_TLCP), &o, mitm_on_record, NULL);
	g_quiesce_hook = NULL;

	int any;
	count_faults(p, r, &any);
	r->fault_id = fault_id(p);
	r->nontrivial = any;
	r->nontrivial_id = r->fault_id;
	const Fault *f0 = &p->faults[0];
	size_t len0 = (p->nfaults && f0->rec >= 0 && f0->rec < tw->o.nrecs[f0->dir]) ? tw->o.recs[f0->dir][f0->rec].len : 0;
	const char *reg = p->nfaults ? region_data(f0, len0, (int)p->proto) : "-";
	snprintf(r->extra, sizeof(r->extra), "proto=%s mutual=%d depth=%d kind=%s region=%s reclen=%zu got=%llu/%llu",
		g_proto_names[p->proto], (int)p->mutual, (int)p->depth, p->nfaults ? g_fault_names[f0->kind] : "none", reg, len0,
		(unsigned long long)o.got[0], (unsigned long long)o.got[1]);

	if (o.step_capped) { rr_violation(r, "no_termination", "step cap reached under faults"); return; }
	if (o.hs_ret[0] != 1 || o.hs_ret[1] != 1) { r->twin_failed = 1; return; }
	if (!any) return;
	/* a correctly protected close_notify from the keyed peer is authentic traffic: the library reports it, and an
	 * application that keeps reading afterwards (this harness does) gets the records that follow.  Nothing for C11 to
	 * say; the variant exists for the leak and memory monitors. */
	for (int i = 0; i < p->nfaults; i++)
		if (p->faults[i].kind == F_EVIL && p->proto == P_TLS13 && p->faults[i].a % 5 == 4) return;

	/* 1. prefix safety and length bounds, always */
	for (int s = 0; s < 2; s++) {
		if (o.io_err[s] && (!strncmp(o.io_err_what[s], "stream_not_prefix", 17) || !strncmp(o.io_err_what[s], "len_exceeds", 11))) {
			int le = !strncmp(o.io_err_what[s], "len_exceeds", 11);
			rr_violation(r, "x", "proto=%s fault=%s region=%s: %s: %s", g_proto_names[p->proto], g_fault_names[f0->kind], reg,
				s ? "server" : "client", o.io_err_what[s]);
			snprintf(r->vclass, sizeof(r->vclass), "%s:%s:%s:%s", le ? "len_exceeds" : "tamper_accepted",
				g_proto_names[p->proto], g_fault_names[f0->kind], reg);
			return;
		}
		if (o.data_after_fail[s]) {
			/* bytes handed out after an error / after the expected end of the stream */
			rr_violation(r, "x", "proto=%s fault=%s region=%s: %s was handed application bytes beyond the genuine stream",
				g_proto_names[p->proto], g_fault_names[f0->kind], reg, s ? "server" : "client");
			snprintf(r->vclass, sizeof(r->vclass), "tamper_accepted:%s:%s:%s", g_proto_names[p->proto], g_fault_names[f0->kind], reg);
			return;
		}
	}
	/* 2. detection: nothing at or after the start of a modified record may be delivered.
	 * Only for single-fault plans: two faults can cancel (the same bit flipped twice) or shadow
	 * each other, and then the record is legitimately delivered; prefix safety above covers those. */
	for (int i = 0; i < p->nfaults && p->nfaults == 1; i++) {
		const Fault *f = &p->faults[i];
		if (!g_frt[i].fired) continue;
		int demand = 0;
		if (f->kind == F_FLIP) demand = !(p->proto == P_TLS13 && f->off < 3);
		else if (f->kind == F_TRUNC) demand = 1;
		else if (f->kind == F_EXTEND) demand = f->bit != 0;
		else if (f->kind == F_EVIL) demand = 1;
		if (!demand) continue;
		/* plaintext offset at which the targeted record starts */
		int64_t start = -1;
		for (int k = 0; k < tw->o.nrecmap[f->dir]; k++)
			if (tw->o.recmap[f->dir][k].rec == f->rec) start = (int64_t)tw->o.recmap[f->dir][k].start;
		if (start < 0) continue;
		{
			/* net effect: a fault that leaves the bytes the receiver consumed for this record exactly as
			 * they were sent (a cut byte that equals the byte sliding into its place) altered nothing */
			const Pipe *pp = &g_conns[0].pipe[f->dir];
			size_t ro = tw->o.recs[f->dir][f->rec].off, rl0 = tw->o.recs[f->dir][f->rec].len;
			if (f->kind != F_EVIL && ro + rl0 <= pp->wr && ro + rl0 <= pp->sent_len && !memcmp(pp->buf + ro, pp->sent + ro, rl0)) continue;
		}
		if ((int64_t)o.got[f->dir] > start) {
			size_t rl = tw->o.recs[f->dir][f->rec].len;
			const char *rg = region_data(f, rl, (int)p->proto);
			rr_violation(r, "x", "proto=%s fault=%s region=%s dir=%d rec=%d off=%d bit=%d reclen=%zu: receiver delivered %llu bytes although the record starting at %lld was altered",
				g_proto_names[p->proto], g_fault_names[f->kind], rg, f->dir, (int)f->rec, (int)f->off, (int)f->bit, rl,
				(unsigned long long)o.got[f->dir], (long long)start);
			snprintf(r->vclass, sizeof(r->vclass), "tamper_accepted:%s:%s:%s", g_proto_names[p->proto], g_fault_names[f->kind], rg);
			return;
		}
	}
	char what[256];
	if (mon_state_violation(what, sizeof(what))) rr_violation(r, "state_corrupt", "%s", what);
}

const Scenario g_scn_mitm_data = { "mitm-data", "C11", 24, mitm_data_gen, mitm_data_run };
