/* C08 — honest peers agree on keys and deliver data intact (DESIGN 4.1). */
#include "gmsim.h"

static void honest_gen(Plan *p, uint64_t run_seed, uint64_t variant, int tier)
{
	(void)variant;
	Rng g;
	plan_init(p, "honest");
	p->seed = (int64_t)run_seed;
	rng_seed(&g, run_seed, 0x401);
	gen_common(p, &g, tier);
	gen_rounds(p, &g, tier, tier ? 12 : 6, 50000);
	/* endpoint tasks preempted inside library code (takes effect in the -if builds only) */
	if (rng_chance(&g, 1, 2)) p->preempt_mean = (int64_t[]){ 5, 20, 100, 1000 }[rng_below(&g, 4)];
	/* TLCP clients may run without trust anchors (the tool's -cacert is optional) */
	if (p->proto == P_TLCP && !p->mutual && rng_chance(&g, 1, 5)) p->cred_mode = 2;
	/* cred_mode bits: 1 = the leaves carry extendedKeyUsage (serverAuth / clientAuth), 2 = TLCP client without trust anchors,
	 * 4 = the client has a certificate and key configured although the server will not ask for one, 8 = see below */
	if (rng_chance(&g, 1, 4)) p->cred_mode |= 1;
	if (!p->mutual && rng_chance(&g, 1, 4)) p->cred_mode |= 4;
	if (rng_chance(&g, 1, 3)) p->cred_mode |= 8;       /* 8 = the TLS_CONNECT objects are re-used, not fresh */
	if (p->mutual && rng_chance(&g, 1, 6)) p->cred_mode = (p->cred_mode & ~1) | 128;      /* 128 = the client's leaf alone is larger than the server's chain */
	if (p->proto == P_TLS13 && rng_chance(&g, 1, 6)) p->cred_mode |= 256;    /* 256 = every writing round starts with a zero-length write (TLS 1.3) */
	/* 512 = the server is another stack: between its writes it sends correctly protected records of another inner type (a
	 * post-handshake NewSessionTicket).  tls13_recv() refuses each of them, once, and the data around them still arrives */
	if (p->proto == P_TLS13 && rng_chance(&g, 1, 6)) { p->cred_mode |= 512; p->eagain = 0; }   /* (the hand-made record goes out through tls_record_send, which cannot resume after EAGAIN) */
	if (p->proto != P_TLS13 && rng_chance(&g, 1, 8)) p->cred_mode |= 32;     /* 32 = one entropy draw fails during a data write and the application writes again */
	if (rng_chance(&g, 1, 8)) p->cred_mode = (p->cred_mode & ~1) | 16;     /* 16 = chains of the largest admissible size, minus (plan_seed mod 10) bytes */
}

void honest_oracle(const Plan *p, const HonestOut *o, RunResult *r)
{
	char why[128];
	if (o->setup_refused) { rr_violation(r, "hs_incomplete", "the library refused the endpoint configuration"); return; }
	if (g_sim.step_capped) { rr_violation(r, "deadlock", "step cap reached (%llu steps)", (unsigned long long)g_sim.step); return; }
	if (o->hs_ret[0] != 1 || o->hs_ret[1] != 1) {
		rr_violation(r, "hs_incomplete", "proto=%s mutual=%d depth=%d client=%d server=%d quiesced=%d",
			g_proto_names[p->proto], (int)p->mutual, (int)p->depth, o->hs_ret[0], o->hs_ret[1], g_sim.quiesced);
		return;
	}
	if (!keysnap_equal(&o->keys[0], &o->keys[1], (int)p->proto, why, sizeof(why))) {
		rr_violation(r, "keys_differ", "proto=%s %s", g_proto_names[p->proto], why);
		return;
	}
	if (o->keys[0].protocol != proto_const((int)p->proto)) {
		rr_violation(r, "keys_differ", "negotiated protocol %x", o->keys[0].protocol);
		return;
	}
	for (int s = 0; s < 2; s++) {
		if (o->io_err[s]) {
			const char *w = o->io_err_what[s];
			const char *cls = !strncmp(w, "len_exceeds", 11) ? "len_exceeds" :
				!strncmp(w, "stream_not_prefix", 17) ? "stream_not_prefix" : "stream_short";
			rr_violation(r, cls, "proto=%s %s: %s", g_proto_names[p->proto], s ? "server" : "client", w);
			return;
		}
	}
	for (int s = 0; s < 2; s++)
		if (o->recv_errs[s] > ((p->cred_mode & 512) ? o->odd_sent[1 - s] : 0)) {    /* one refusal per record of a kind tls13_recv() does not deliver */
			rr_violation(r, "stream_short", "proto=%s %s: recv returned an error %d time(s) on an untampered connection",
				g_proto_names[p->proto], s ? "server" : "client", o->recv_errs[s]);
			return;
		}
	for (int d = 0; d < 2; d++) {
		uint64_t want = 0;
		for (int i = 0; i < p->nrounds; i++) {
			const Round *rr = &p->rounds[i];
			want += (uint64_t)rr->n[d];
			if ((rr->mode == RM_C2S_ACKED && d == DIR_S2C) || (rr->mode == RM_S2C_ACKED && d == DIR_C2S))
				want += (uint64_t)(rr->n[1 - d] / (rr->ack_every > 0 ? rr->ack_every : 1)) * (uint64_t)(rr->ack_size > 0 ? rr->ack_size : 1);
		}
		if (o->wrote[d] != want || o->got[d] != want) {
			rr_violation(r, "stream_short", "proto=%s dir=%d wrote=%llu got=%llu want=%llu", g_proto_names[p->proto],
				d, (unsigned long long)o->wrote[d], (unsigned long long)o->got[d], (unsigned long long)want);
			return;
		}
	}
	if (!o->eof_ok) { rr_violation(r, "stream_short", "proto=%s orderly close not seen as end-of-stream", g_proto_names[p->proto]); return; }
	if (g_sim.quiesced) { rr_violation(r, "deadlock", "run only ended by quiescence handler"); return; }
}

static void honest_run(const Plan *p, RunResult *r)
{
	static HonestOut o;
	const CredSet *cs = (p->cred_mode & 1) ? creds_get_eku((int)p->depth, p->proto == P_TLCP) : creds_get((int)p->depth, p->proto == P_TLCP);
	if ((p->cred_mode & 128) && p->mutual) {
		const CredSet *bc = creds_get_bigclient((int)p->depth, p->proto == P_TLCP);
		if (bc->ok) cs = bc;
	}
	if (p->cred_mode & 16) {
		const CredSet *mx = creds_get_max((int)p->depth, p->proto == P_TLCP, (int)((uint64_t)p->plan_seed % 10));
		if (mx) cs = mx;
	}
	static Plan q;
	q = *p;
	if ((p->cred_mode & 32) && p->proto != P_TLS13) {
		/* one entropy draw of one endpoint fails while it writes application data; the application writes again.
		 * The fault-free run tells which draws belong to data writes. */
		q.efail_node = -1; q.efail_at = -1;
		conn_run(&q, cs, &o, NULL, NULL);
		int node = (int)((uint64_t)p->plan_seed & 1);
		uint64_t lo = o.draws_at_done[node], hi = o.draws_at_data_end[node];
		if (o.hs_ret[0] == 1 && o.hs_ret[1] == 1 && hi > lo) {
			q.efail_node = node; q.efail_at = (int64_t)(lo + ((uint64_t)p->plan_seed >> 1) % (hi - lo)); q.efail_rest = 0; q.efail_errno = 5;
		} else q.cred_mode &= ~32;
	} else q.cred_mode &= ~32;
	conn_run(&q, cs, &o, NULL, NULL);
	honest_oracle(&q, &o, r);
	char what[256];
	if (!r->violated && mon_state_violation(what, sizeof(what))) rr_violation(r, "state_corrupt", "%s", what);
	r->nontrivial = g_sim.switches > 2;
	r->nontrivial_id = g_sim.ileave;
	snprintf(r->extra, sizeof(r->extra), "proto=%s mutual=%d depth=%d cred=%d chain=%zu/%zu bytes=%llu recs=%d",
		g_proto_names[p->proto], (int)p->mutual, (int)p->depth, (int)p->cred_mode, cs->srv_chain_len, cs->cli_chain_len,
		(unsigned long long)(o.wrote[0] + o.wrote[1]), o.nrecs[0] + o.nrecs[1]);
}

const Scenario g_scn_honest = { "honest", "C08", 1, honest_gen, honest_run };

/* C19 companion: the closing side shuts down while the peer still has application data in flight
 * (no stream oracle: what arrives where is not the point; the leak and state monitors are) */
static void abrupt_gen(Plan *p, uint64_t run_seed, uint64_t variant, int tier)
{
	Rng g;
	honest_gen(p, run_seed, variant, tier);
	snprintf(p->scenario, sizeof(p->scenario), "abrupt");
	rng_seed(&g, run_seed, 0x4ab);
	p->early_close = 1;
	p->capacity = 0; p->preempt_mean = 0;
	/* make the last round flow towards the closing side */
	Round *r = &p->rounds[p->nrounds - 1];
	int in = p->closer == 0 ? DIR_S2C : DIR_C2S;
	if (r->mode == RM_C2S_ACKED || r->mode == RM_S2C_ACKED) { r->mode = r->mode == RM_C2S_ACKED ? RM_C2S : RM_S2C; r->ack_every = r->ack_size = 0; }
	if (r->mode != RM_DUPLEX && r->mode != in) {
		r->mode = in;
		r->n[in] = 1 + rng_below(&g, 3000); r->n[1 - in] = 0;
		r->wchunk[in] = 0; r->rbuf_max[in] = 4096;
	}
}

static void abrupt_run(const Plan *p, RunResult *r)
{
	static HonestOut o;
	const CredSet *cs = creds_get((int)p->depth, p->proto == P_TLCP);
	conn_run(p, cs, &o, NULL, NULL);
	char what[256];
	if (o.step_capped) { rr_violation(r, "no_termination", "step cap"); return; }
	if (mon_state_violation(what, sizeof(what))) rr_violation(r, "state_corrupt", "%s", what);
	r->nontrivial = o.hs_ret[0] == 1 && o.hs_ret[1] == 1;
	r->nontrivial_id = g_sim.ileave;
	snprintf(r->extra, sizeof(r->extra), "proto=%s mutual=%d depth=%d bytes=%llu", g_proto_names[p->proto], (int)p->mutual, (int)p->depth,
		(unsigned long long)(o.wrote[0] + o.wrote[1]));
}

const Scenario g_scn_abrupt = { "abrupt", "C19", 1, abrupt_gen, abrupt_run };
