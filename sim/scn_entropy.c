/* C18 — randomised operations are fresh, entropy-driven and fail closed
 * (DESIGN 4.6).  Mode A (plan.op == 0): complete handshakes with the entropy
 * source of one endpoint failing at its i-th draw.  Mode B (plan.op > 0):
 * single-node randomised API operations: every draw index fails in turn,
 * stream pairs, and histories of repeated operations on one stream. */
#define _GNU_SOURCE
#include "gmsim.h"
#include <gmssl/sm9.h>
#include <gmssl/cms.h>
#include <gmssl/x509_req.h>
#include <gmssl/x509_crl.h>
#include <gmssl/oid.h>
#include <gmssl/pkcs8.h>
#include <gmssl/x509_ext.h>

/* ------------------------------------------------------------- single ops */
#define MAX_EPH 80
typedef struct OpOut {
	int status;                 /* 1 = the operation (sequence) reported success */
	int neph;
	uint8_t eph[MAX_EPH][40]; uint8_t ephlen[MAX_EPH];
	uint64_t outhash;
	int valid;                  /* when status==1: result verified/decrypted correctly with the library */
} OpOut;

static OpOut *g_oo;
static void eph_add(const uint8_t *p, size_t n)
{
	if (g_oo->neph >= MAX_EPH) return;
	if (n > 40) n = 40;
	memcpy(g_oo->eph[g_oo->neph], p, n);
	g_oo->ephlen[g_oo->neph] = (uint8_t)n;
	g_oo->neph++;
}
static void out_add(const void *p, size_t n) { g_oo->outhash = hash_bytes(g_oo->outhash, p, n); }

static SM2_KEY g_k1, g_k2;             /* fixed keys made under the setup stream */
static SM9_SIGN_MASTER_KEY g_sm9s_msk; static SM9_SIGN_KEY g_sm9s_key;
static SM9_ENC_MASTER_KEY g_sm9e_msk; static SM9_ENC_KEY g_sm9e_key;
static int g_ops_ready, g_sm9_ready;
static const uint8_t g_dgst[32] = { 1, 2, 3, 4, 5, 6, 7, 8, 9, 10, 11, 12, 13, 14, 15, 16, 17, 18, 19, 20, 21, 22, 23, 24, 25, 26, 27, 28, 29, 30, 31, 32 };
static const uint8_t g_msg[48] = "the quick brown fox jumps over the lazy dog 0123";

static void ops_setup(int need_sm9)
{
	(void)creds_get(1, 0);        /* cached credentials are never built inside a task */
	if (!g_ops_ready) {
		sim_ambient_entropy_seed(0x0b5e7);
		if (sm2_key_generate(&g_k1) != 1 || sm2_key_generate(&g_k2) != 1) die("ops_setup");
		g_ops_ready = 1;
	}
	if (need_sm9 && !g_sm9_ready) {
		sim_ambient_entropy_seed(0x0b5e9);
		if (sm9_sign_master_key_generate(&g_sm9s_msk) != 1
		    || sm9_sign_master_key_extract_key(&g_sm9s_msk, "alice", 5, &g_sm9s_key) != 1
		    || sm9_enc_master_key_generate(&g_sm9e_msk) != 1
		    || sm9_enc_master_key_extract_key(&g_sm9e_msk, "bob", 3, &g_sm9e_key) != 1) die("sm9 setup");
		g_sm9_ready = 1;
	}
}

static void sig_r(const uint8_t *sig, size_t siglen)
{
	SM2_SIGNATURE s;
	const uint8_t *p = sig; size_t n = siglen;
	if (sm2_signature_from_der(&s, &p, &n) == 1) eph_add(s.r, 32);
	else eph_add(sig, siglen);
}

static int op_keygen(void)
{
	SM2_KEY k; uint8_t pub[64];
	if (sm2_key_generate(&k) != 1) return 0;
	sm2_z256_point_to_bytes(&k.public_key, pub);
	eph_add(pub, 32); out_add(pub, 64);
	/* a generated key is valid if its private part lies in [1, n-2] and the public part belongs to it */
	SM2_KEY chk;
	uint8_t pub2[64];
	g_oo->valid = sm2_key_set_private_key(&chk, k.private_key) == 1 && sm2_z256_point_to_bytes(&chk.public_key, pub2) == 1 && !memcmp(pub, pub2, 64);
	return 1;
}
static int op_sign(void)
{
	uint8_t sig[SM2_MAX_SIGNATURE_SIZE]; size_t siglen = 0;
	if (sm2_sign(&g_k1, g_dgst, sig, &siglen) != 1) return 0;
	sig_r(sig, siglen); out_add(sig, siglen);
	g_oo->valid = sm2_verify(&g_k1, g_dgst, sig, siglen) == 1;
	return 1;
}
static int op_sign_fixlen(void)
{
	uint8_t sig[SM2_MAX_SIGNATURE_SIZE];
	if (sm2_sign_fixlen(&g_k1, g_dgst, 71, sig) != 1) return 0;
	sig_r(sig, 71); out_add(sig, 71);
	g_oo->valid = sm2_verify(&g_k1, g_dgst, sig, 71) == 1;
	return 1;
}
static int verify_msg(const uint8_t *sig, size_t siglen)
{
	SM2_VERIFY_CTX v;
	return sm2_verify_init(&v, &g_k1, SM2_DEFAULT_ID, SM2_DEFAULT_ID_LENGTH) == 1
		&& sm2_verify_update(&v, g_msg, sizeof(g_msg)) == 1 && sm2_verify_finish(&v, sig, siglen) == 1;
}
static int op_sign_ctx(void)
{
	SM2_SIGN_CTX c; uint8_t sig[SM2_MAX_SIGNATURE_SIZE]; size_t siglen = 0;
	if (sm2_sign_init(&c, &g_k1, SM2_DEFAULT_ID, SM2_DEFAULT_ID_LENGTH) != 1) return 0;
	if (sm2_sign_update(&c, g_msg, sizeof(g_msg)) != 1) return 0;
	if (sm2_sign_finish(&c, sig, &siglen) != 1) return 0;
	sig_r(sig, siglen); out_add(sig, siglen);
	g_oo->valid = verify_msg(sig, siglen);
	return 1;
}
static int op_sign_ctx_reuse(void)
{
	/* one long-lived context: 40 signatures cross the 32-entry nonce cache */
	SM2_SIGN_CTX c; uint8_t sig[SM2_MAX_SIGNATURE_SIZE]; size_t siglen;
	int ok = 1;
	if (sm2_sign_init(&c, &g_k1, SM2_DEFAULT_ID, SM2_DEFAULT_ID_LENGTH) != 1) return 0;
	for (int i = 0; i < 40; i++) {
		siglen = 0;
		if (sm2_sign_update(&c, g_msg, sizeof(g_msg)) != 1) return 0;
		if (sm2_sign_finish(&c, sig, &siglen) != 1) return 0;
		sig_r(sig, siglen); out_add(sig, siglen);
		ok &= verify_msg(sig, siglen);
		if (sm2_sign_reset(&c) != 1) return 0;
	}
	g_oo->valid = ok;
	return 1;
}
static int op_sign_ctx_continue(void)
{
	/* one long-lived context, 72 signatures; a failing sm2_sign_finish is noted and the caller carries on
	 * with the same context, as an application retrying would */
	SM2_SIGN_CTX c; uint8_t sig[SM2_MAX_SIGNATURE_SIZE]; size_t siglen;
	int ok = 1, failed = 0;
	if (sm2_sign_init(&c, &g_k1, SM2_DEFAULT_ID, SM2_DEFAULT_ID_LENGTH) != 1) return 0;
	for (int i = 0; i < 72; i++) {
		siglen = 0;
		if (sm2_sign_update(&c, g_msg, sizeof(g_msg)) != 1) return 0;
		if (sm2_sign_finish(&c, sig, &siglen) != 1) { failed++; if (sm2_sign_reset(&c) != 1) return 0; continue; }
		sig_r(sig, siglen); out_add(sig, siglen);
		ok &= verify_msg(sig, siglen);
		if (sm2_sign_reset(&c) != 1) return 0;
	}
	g_oo->valid = ok;
	return failed ? 0 : 1;
}
static int op_encrypt(void)
{
	uint8_t ct[SM2_MAX_CIPHERTEXT_SIZE], pt[SM2_MAX_PLAINTEXT_SIZE]; size_t ctlen = 0, ptlen = 0;
	SM2_CIPHERTEXT c; const uint8_t *p; size_t n;
	if (sm2_encrypt(&g_k1, g_msg, sizeof(g_msg), ct, &ctlen) != 1) return 0;
	p = ct; n = ctlen;
	if (sm2_ciphertext_from_der(&c, &p, &n) == 1) eph_add(c.point.x, 32); else eph_add(ct, ctlen);
	out_add(ct, ctlen);
	g_oo->valid = sm2_decrypt(&g_k1, ct, ctlen, pt, &ptlen) == 1 && ptlen == sizeof(g_msg) && !memcmp(pt, g_msg, ptlen);
	return 1;
}
static int op_encrypt_fixlen(void)
{
	uint8_t ct[SM2_MAX_CIPHERTEXT_SIZE], pt[SM2_MAX_PLAINTEXT_SIZE]; size_t ctlen = 0, ptlen = 0;
	SM2_CIPHERTEXT c; const uint8_t *p; size_t n;
	if (sm2_encrypt_fixlen(&g_k1, g_msg, sizeof(g_msg), 32, ct, &ctlen) != 1) return 0;
	p = ct; n = ctlen;
	if (sm2_ciphertext_from_der(&c, &p, &n) == 1) eph_add(c.point.x, 32); else eph_add(ct, ctlen);
	out_add(ct, ctlen);
	g_oo->valid = sm2_decrypt(&g_k1, ct, ctlen, pt, &ptlen) == 1 && ptlen == sizeof(g_msg) && !memcmp(pt, g_msg, ptlen);
	return 1;
}
static int op_encrypt_ctx(void)
{
	/* a reused encryption context: 12 ciphertexts cross the 8-entry precomputation */
	SM2_ENC_CTX c; uint8_t ct[SM2_MAX_CIPHERTEXT_SIZE], pt[SM2_MAX_PLAINTEXT_SIZE]; size_t ctlen, ptlen;
	int ok = 1;
	if (sm2_encrypt_init(&c) != 1) return 0;
	for (int i = 0; i < 12; i++) {
		SM2_CIPHERTEXT cc; const uint8_t *p; size_t n;
		ctlen = 0;
		if (sm2_encrypt_update(&c, g_msg, sizeof(g_msg)) != 1) return 0;
		if (sm2_encrypt_finish(&c, &g_k1, ct, &ctlen) != 1) return 0;
		p = ct; n = ctlen;
		if (sm2_ciphertext_from_der(&cc, &p, &n) == 1) eph_add(cc.point.x, 32); else eph_add(ct, ctlen);
		out_add(ct, ctlen);
		ok &= sm2_decrypt(&g_k1, ct, ctlen, pt, &ptlen) == 1 && ptlen == sizeof(g_msg) && !memcmp(pt, g_msg, ptlen);
		if (sm2_encrypt_reset(&c) != 1) return 0;
	}
	g_oo->valid = ok;
	return 1;
}
static int op_ecdh(void)
{
	SM2_KEY e; uint8_t pub[64], out[64], peer[65];
	if (sm2_key_generate(&e) != 1) return 0;
	sm2_z256_point_to_bytes(&e.public_key, pub);
	peer[0] = 4; sm2_z256_point_to_bytes(&g_k2.public_key, peer + 1);
	if (sm2_ecdh(&e, peer, 65, out) != 1) return 0;
	eph_add(pub, 32); out_add(out, 64);
	g_oo->valid = 1;
	return 1;
}
static int op_pkcs8(void)
{
	uint8_t buf[1024], *p = buf; size_t len = 0;
	SM2_KEY k; const uint8_t *cp; const uint8_t *attrs; size_t attrslen;
	if (sm2_private_key_info_encrypt_to_der(&g_k1, "P@ssw0rd", &p, &len) != 1) return 0;
	eph_add(buf + 20, 40); eph_add(buf + len - 40, 40);
	out_add(buf, len);
	cp = buf;
	g_oo->valid = sm2_private_key_info_decrypt_from_der(&k, &attrs, &attrslen, "P@ssw0rd", &cp, &len) == 1
		&& !memcmp(&k, &g_k1, sizeof(k));
	return 1;
}
static int op_cert_sign(void)
{
	Ident id; CertSpec s = { "entropy.sim", 0, -1, X509_KU_DIGITAL_SIGNATURE, SIM_T0 - 1, SIM_T0 + 86400 };
	Ident issuer; memset(&issuer, 0, sizeof(issuer));
	issuer.key = g_k2; creds_make_name("Entropy CA", issuer.name, &issuer.namelen);
	if (creds_issue(&s, &g_k1, &issuer, &id) != 1) return 0;
	eph_add(id.cert + id.certlen - 40, 40);     /* tail of the signature */
	eph_add(id.cert + 15, 12);                  /* serial number */
	out_add(id.cert, id.certlen);
	g_oo->valid = x509_signed_verify(id.cert, id.certlen, &g_k2, SM2_DEFAULT_ID, SM2_DEFAULT_ID_LENGTH) == 1;
	return 1;
}
static int op_req_sign(void)
{
	uint8_t name[256]; size_t namelen; uint8_t req[1024], *p = req; size_t len = 0;
	creds_make_name("req.sim", name, &namelen);
	uint8_t attrs[8];     /* empty attribute set, passed the way tools/reqgen.c does */
	if (x509_req_sign_to_der(0, name, namelen, &g_k1, attrs, 0, OID_sm2sign_with_sm3,
		&g_k1, SM2_DEFAULT_ID, SM2_DEFAULT_ID_LENGTH, &p, &len) != 1) return 0;
	eph_add(req + len - 40, 40); out_add(req, len);
	g_oo->valid = x509_req_verify(req, len, SM2_DEFAULT_ID, SM2_DEFAULT_ID_LENGTH) == 1;
	return 1;
}
static int op_crl_sign(void)
{
	uint8_t name[256]; size_t namelen; uint8_t crl[1024], *p = crl; size_t len = 0;
	creds_make_name("Entropy CA", name, &namelen);
	if (x509_crl_sign_to_der(1, OID_sm2sign_with_sm3, name, namelen, SIM_T0, SIM_T0 + 86400, NULL, 0, NULL, 0,
		&g_k2, SM2_DEFAULT_ID, SM2_DEFAULT_ID_LENGTH, &p, &len) != 1) return 0;
	eph_add(crl + len - 40, 40); out_add(crl, len);
	g_oo->valid = x509_signed_verify(crl, len, &g_k2, SM2_DEFAULT_ID, SM2_DEFAULT_ID_LENGTH) == 1;
	return 1;
}
static uint8_t g_cms[8192];
static int op_cms_sign(void)
{
	const CredSet *cs = creds_get(1, 0);
	SM2_KEY k = cs->cli_sign.key;
	CMS_CERTS_AND_KEY signer = { (uint8_t *)cs->cli_sign.cert, cs->cli_sign.certlen, &k };
	size_t len = 0;
	if (cms_sign(g_cms, &len, &signer, 1, OID_cms_data, g_msg, sizeof(g_msg), NULL, 0) != 1) return 0;
	eph_add(g_cms + len - 40, 40); out_add(g_cms, len);
	int ct; const uint8_t *c, *certs, *crls, *si; size_t clen, certslen, crlslen, silen;
	g_oo->valid = cms_verify(g_cms, len, NULL, 0, NULL, 0, &ct, &c, &clen, &certs, &certslen, &crls, &crlslen, &si, &silen) == 1;
	return 1;
}
static int op_cms_envelop(void)
{
	const CredSet *cs = creds_get(1, 0);
	static const uint8_t key[16] = { 9, 8, 7, 6, 5, 4, 3, 2, 1, 0, 1, 2, 3, 4, 5, 6 };
	static const uint8_t iv[16] = { 0 };
	size_t len = 0;
	if (cms_envelop(g_cms, &len, cs->srv_sign.cert, cs->srv_sign.certlen, OID_sm4_cbc, key, 16, iv, 16,
		OID_cms_data, g_msg, sizeof(g_msg), NULL, 0, NULL, 0) != 1) return 0;
	/* the only randomness is the SM2 encryption of the content key: equal outputs <=> equal C1 */
	{ uint64_t h1 = hash_bytes(1, g_cms, len), h2 = hash_bytes(2, g_cms, len); uint8_t hh[16]; memcpy(hh, &h1, 8); memcpy(hh + 8, &h2, 8); eph_add(hh, 16); }
	out_add(g_cms, len);
	g_oo->valid = 1;
	return 1;
}
static int op_cbc_record(void)
{
	SM3_HMAC_CTX h; SM4_KEY k; uint8_t key[32] = { 1 }, out[256]; size_t outlen = 0;
	uint8_t seq[8] = { 0 }, hdr[5] = { 23, 3, 3, 0, 48 }, dec[256]; size_t declen = 0;
	sm3_hmac_init(&h, key, 32); sm4_set_encrypt_key(&k, key);
	if (tls_cbc_encrypt(&h, &k, seq, hdr, g_msg, sizeof(g_msg), out, &outlen) != 1) return 0;
	eph_add(out, 16); out_add(out, outlen);
	SM4_KEY dk; sm4_set_decrypt_key(&dk, key);
	uint8_t ehdr[5] = { 23, 3, 3, (uint8_t)(outlen >> 8), (uint8_t)outlen };
	g_oo->valid = tls_cbc_decrypt(&h, &dk, seq, ehdr, out, outlen, dec, &declen) == 1 && declen == sizeof(g_msg);
	return 1;
}
static int op_tls_random(void)
{
	uint8_t r[32];
	if (tls_random_generate(r) != 1) return 0;
	eph_add(r + 4, 28); out_add(r, 32);
	g_oo->valid = 1;
	return 1;
}
static int op_rand_sizes(void)
{
	/* rand_bytes() over the lengths around its documented limit: up to the limit it fills the whole buffer or fails;
	 * above it, it either refuses or — if it reports success — has written every byte it was asked for */
	static const size_t lens[] = { 1, 32, 255, 256, 257, 300, 512, 600 };
	uint8_t a[608], b[608];
	g_oo->valid = 1;
	for (int i = 0; i < 8; i++) {
		size_t L = lens[i];
		memset(a, 0x5c, sizeof(a)); memset(b, 0xa3, sizeof(b));
		int ret = rand_bytes(a, L);
		if (ret != 1) { if (L <= 256) return 0; continue; }
		if (a[L] != 0x5c) g_oo->valid = 0;                               /* wrote past the request */
		if (L >= 32) eph_add(a, 32);
		if (L >= 64) eph_add(a + L - 32, 32);
		out_add(a, L);
		if (L > 256) {
			if (rand_bytes(b, L) != 1) continue;
			for (size_t k = 0; k < L; k++) if (a[k] == 0x5c && b[k] == 0xa3) g_oo->valid = 0;   /* a byte neither call wrote */
		}
	}
	return 1;
}
static int op_pms(void)
{
	uint8_t pms[48];
	if (tls_pre_master_secret_generate(pms, TLS_protocol_tlcp) != 1) return 0;
	eph_add(pms + 2, 40); out_add(pms, 48);
	g_oo->valid = 1;
	return 1;
}
static int op_ske_sign(void)
{
	uint8_t cr[32] = { 1 }, sr[32] = { 2 }, sig[TLS_MAX_SIGNATURE_SIZE]; size_t siglen = 0;
	memset(sig, 0, sizeof(sig));
	if (tls_sign_server_ecdh_params(&g_k1, cr, sr, TLS_curve_sm2p256v1, &g_k2.public_key, sig, &siglen) != 1) return 0;
	sig_r(sig, siglen > sizeof(sig) ? sizeof(sig) : siglen); out_add(sig, siglen > sizeof(sig) ? sizeof(sig) : siglen);
	g_oo->valid = siglen <= sizeof(sig) && tls_verify_server_ecdh_params(&g_k1, cr, sr, TLS_curve_sm2p256v1, &g_k2.public_key, sig, siglen) == 1;
	return 1;
}
static int op_sm9_keygen(void)
{
	SM9_SIGN_MASTER_KEY m; uint8_t buf[512], *p = buf; size_t len = 0;
	if (sm9_sign_master_key_generate(&m) != 1) return 0;
	if (sm9_sign_master_public_key_to_der(&m, &p, &len) != 1) return 0;
	eph_add(buf + len - 40, 40); out_add(buf, len);
	g_oo->valid = 1;
	return 1;
}
static int op_sm9_sign(void)
{
	SM9_SIGN_CTX c; uint8_t sig[SM9_SIGNATURE_SIZE]; size_t siglen = 0;
	if (sm9_sign_init(&c) != 1 || sm9_sign_update(&c, g_msg, sizeof(g_msg)) != 1) return 0;
	if (sm9_sign_finish(&c, &g_sm9s_key, sig, &siglen) != 1) return 0;
	eph_add(sig + (siglen > 40 ? siglen - 40 : 0), siglen > 40 ? 40 : siglen); out_add(sig, siglen);
	SM9_SIGN_CTX v;
	g_oo->valid = sm9_verify_init(&v) == 1 && sm9_verify_update(&v, g_msg, sizeof(g_msg)) == 1
		&& sm9_verify_finish(&v, sig, siglen, &g_sm9s_msk, "alice", 5) == 1;
	return 1;
}
static int op_sm9_encrypt(void)
{
	uint8_t ct[SM9_MAX_CIPHERTEXT_SIZE], pt[256]; size_t ctlen = 0, ptlen = 0;
	if (sm9_encrypt(&g_sm9e_msk, "bob", 3, g_msg, sizeof(g_msg), ct, &ctlen) != 1) return 0;
	eph_add(ct + 10, 40); out_add(ct, ctlen);
	g_oo->valid = sm9_decrypt(&g_sm9e_key, "bob", 3, ct, ctlen, pt, &ptlen) == 1 && ptlen == sizeof(g_msg) && !memcmp(pt, g_msg, ptlen);
	return 1;
}
static int op_sm9_exch(void)
{
	SM9_Z256_POINT RA; sm9_z256_t rA; uint8_t buf[65];
	if (sm9_exch_step_1A(&g_sm9e_msk, "bob", 3, &RA, rA) != 1) return 0;
	sm9_z256_point_to_uncompressed_octets(&RA, buf);
	eph_add(buf + 1, 32); out_add(buf, 65);
	g_oo->valid = 1;
	return 1;
}

static int op_sm9_exch_1b(void)
{
	SM9_Z256_POINT RA, RB; sm9_z256_t rA; uint8_t buf[65], sk[16];
	static SM9_ENC_KEY keyB; static int have;
	if (!have) { sim_ambient_entropy_seed(0x0b5eb); if (sm9_exch_master_key_extract_key(&g_sm9e_msk, "bob", 3, &keyB) != 1) return 0; have = 1; }
	/* RA from a fixed scalar so that only step 1B draws entropy here */
	sm9_z256_hash1(rA, "bob", 3, SM9_HID_EXCH);
	sm9_z256_point_mul(&RA, rA, sm9_z256_generator());
	if (sm9_exch_step_1B(&g_sm9e_msk, "alice", 5, "bob", 3, &keyB, &RA, &RB, sk, sizeof(sk)) != 1) return 0;
	sm9_z256_point_to_uncompressed_octets(&RB, buf);
	eph_add(buf + 1, 32); out_add(buf, 65); out_add(sk, 16);
	g_oo->valid = 1;
	return 1;
}
static int op_sm9_enc_keygen(void)
{
	SM9_ENC_MASTER_KEY m; uint8_t buf[512], *p = buf; size_t len = 0;
	if (sm9_enc_master_key_generate(&m) != 1) return 0;
	if (sm9_enc_master_public_key_to_der(&m, &p, &len) != 1) return 0;
	eph_add(buf + len - 40, 40); out_add(buf, len);
	g_oo->valid = 1;
	return 1;
}
static int op_pkcs8_pem(void)
{
	char *mem = NULL; size_t mlen = 0; SM2_KEY k;
	FILE *f = open_memstream(&mem, &mlen);
	if (!f) return 0;
	int ret = sm2_private_key_info_encrypt_to_pem(&g_k1, "P@ssw0rd", f);
	fclose(f);
	if (ret != 1) { free(mem); return 0; }
	{ uint64_t h1 = hash_bytes(3, mem, mlen), h2 = hash_bytes(4, mem, mlen); uint8_t hh[16]; memcpy(hh, &h1, 8); memcpy(hh + 8, &h2, 8); eph_add(hh, 16); }
	out_add(mem, mlen);
	FILE *g = fmemopen(mem, mlen, "r");
	g_oo->valid = g && sm2_private_key_info_decrypt_from_pem(&k, "P@ssw0rd", g) == 1 && !memcmp(&k, &g_k1, sizeof(k));
	if (g) fclose(g);
	free(mem);
	return 1;
}
__attribute__((unused)) static int op_cms_sign_envelop(void)
{
	const CredSet *cs = creds_get(1, 0);
	SM2_KEY k = cs->cli_sign.key;
	CMS_CERTS_AND_KEY signer = { (uint8_t *)cs->cli_sign.cert, cs->cli_sign.certlen, &k };
	static const uint8_t key[16] = { 1, 2, 3, 4, 5, 6, 7, 8, 9, 10, 11, 12, 13, 14, 15, 16 }, iv[16] = { 0 };
	size_t len = 0;
	if (cms_sign_and_envelop(g_cms, &len, &signer, 1, cs->srv_sign.cert, cs->srv_sign.certlen, OID_sm4_cbc, key, 16, iv, 16,
		OID_cms_data, g_msg, sizeof(g_msg), NULL, 0, NULL, 0, NULL, 0) != 1) return 0;
	{ uint64_t h1 = hash_bytes(5, g_cms, len), h2 = hash_bytes(6, g_cms, len); uint8_t hh[16]; memcpy(hh, &h1, 8); memcpy(hh + 8, &h2, 8); eph_add(hh, 16); }
	out_add(g_cms, len);
	g_oo->valid = 1;
	return 1;
}

typedef struct OpDef { const char *name; int (*fn)(void); int sm9; int slow; } OpDef;
static const OpDef g_ops[] = {
	{ "none", NULL, 0, 0 },
	{ "sm2_key_generate", op_keygen, 0, 0 }, { "sm2_sign", op_sign, 0, 0 }, { "sm2_sign_fixlen", op_sign_fixlen, 0, 0 },
	{ "sm2_sign_ctx", op_sign_ctx, 0, 0 }, { "sm2_sign_ctx_reuse40", op_sign_ctx_reuse, 0, 1 }, { "sm2_sign_ctx_continue72", op_sign_ctx_continue, 0, 1 },
	{ "sm2_encrypt", op_encrypt, 0, 0 }, { "sm2_encrypt_fixlen", op_encrypt_fixlen, 0, 0 }, { "sm2_encrypt_ctx_reuse12", op_encrypt_ctx, 0, 1 },
	{ "sm2_ecdh", op_ecdh, 0, 0 }, { "pkcs8_encrypt", op_pkcs8, 0, 1 },
	{ "x509_cert_sign", op_cert_sign, 0, 0 }, { "x509_req_sign", op_req_sign, 0, 0 }, { "x509_crl_sign", op_crl_sign, 0, 0 },
	{ "cms_sign", op_cms_sign, 0, 0 }, { "cms_envelop", op_cms_envelop, 0, 0 },
	{ "tls_cbc_encrypt", op_cbc_record, 0, 0 }, { "tls_random_generate", op_tls_random, 0, 0 },
	{ "tls_pre_master_secret_generate", op_pms, 0, 0 }, { "tls_sign_server_ecdh_params", op_ske_sign, 0, 0 },
	{ "sm9_sign_master_key_generate", op_sm9_keygen, 1, 1 }, { "sm9_sign", op_sm9_sign, 1, 1 },
	{ "sm9_encrypt", op_sm9_encrypt, 1, 1 }, { "sm9_exch_step_1A", op_sm9_exch, 1, 1 },
	{ "sm9_exch_step_1B", op_sm9_exch_1b, 1, 1 }, { "sm9_enc_master_key_generate", op_sm9_enc_keygen, 1, 1 },
	{ "pkcs8_encrypt_pem", op_pkcs8_pem, 0, 1 },
	{ "rand_bytes_sizes", op_rand_sizes, 0, 0 },
};
#define NOPS ((int)(sizeof(g_ops) / sizeof(g_ops[0])))

#define MAX_REP 1000
typedef struct OpRun { int op, count; OpOut out[MAX_REP]; int nout; uint64_t draws; } OpRun;
static OpRun g_or;

static void op_task(void *arg)
{
	OpRun *r = arg;
	for (int i = 0; i < r->count && i < MAX_REP; i++) {
		OpOut *o = &r->out[i];
		memset(o, 0, sizeof(*o));
		g_oo = o;
		sim_progress();
		o->status = g_ops[r->op].fn();
		r->nout = i + 1;
		sim_trace(EV_OPRES, o->status, (int64_t)(o->outhash & 0xffffff));
		if (o->status != 1) break;
	}
	r->draws = g_sim.nodes[0].draws;
}

/* run `count` repetitions of op on a fresh simulator with entropy stream `ent` */
static void op_exec(const Plan *p, uint64_t ent, int count, int64_t efail_at, int efail_rest, int64_t eburst_at, int eburst_k, int eburst_val)
{
	/* (errno of the failing draw comes from the plan) */
	arena_begin();
	sim_reset((uint64_t)p->sched_seed);
	net_reset(); mon_reset(); cap_reset();
	rng_seed(&g_sim.nodes[0].ent, ent, 0xc11e);
	g_sim.nodes[0].efail_at = efail_at; g_sim.nodes[0].efail_rest = efail_rest; g_sim.nodes[0].efail_errno = (int)p->efail_errno;
	g_sim.nodes[0].eburst_at = eburst_at; g_sim.nodes[0].eburst_k = eburst_k; g_sim.nodes[0].eburst_val = eburst_val;
	g_sim.on_switch = mon_on_switch;
	memset(&g_or, 0, sizeof(g_or));
	g_or.op = (int)p->op; g_or.count = count;
	sim_spawn("op", 0, op_task, &g_or);
	sim_run();
	mon_on_switch(-1);
	arena_end();
}

static int eph_equal(const OpOut *a, int i, const OpOut *b, int j)
{
	return a->ephlen[i] == b->ephlen[j] && a->ephlen[i] >= 8 && !memcmp(a->eph[i], b->eph[j], a->ephlen[i]);
}

typedef struct EphRef { const OpOut *o; int rep, x; } EphRef;
static int ephref_order(const EphRef *a, const EphRef *b) { return a->rep != b->rep ? a->rep - b->rep : a->x - b->x; }
static int ephref_cmp(const void *pa, const void *pb)
{
	const EphRef *a = pa, *b = pb;
	int la = a->o->ephlen[a->x], lb = b->o->ephlen[b->x];
	if (la != lb) return la - lb;
	int c = memcmp(a->o->eph[a->x], b->o->eph[b->x], (size_t)la);
	return c ? c : ephref_order(a, b);       /* total order: the reported pair does not depend on qsort internals */
}

/* ------------------------------------------------------------- generation */
enum { EM_FAIL = 0, EM_BURST = 1, EM_PAIR = 2, EM_HISTORY = 3 };   /* stored in plan.defect */

static struct { uint64_t key; uint64_t ndraws[2]; int ok, bad_success; } g_etwin;

static uint64_t eplan_key(const Plan *p)
{
	Plan q = *p;
	q.efail_node = -1; q.efail_at = -1; q.efail_rest = 0; q.eburst_at = -1; q.eburst_k = 0; q.eburst_val = 0; q.defect = 0; q.op_count = 0;
	memset(q.scenario, 0, sizeof(q.scenario));
	return hash_bytes(0xe7, &q, sizeof(q));
}

static void etwin(const Plan *p)
{
	uint64_t key = eplan_key(p);
	if (g_etwin.key == key) return;
	g_etwin.key = key;
	if (p->op) {
		ops_setup(g_ops[p->op].sm9);
		op_exec(p, (uint64_t)p->ent_c, 1, -1, 0, -1, 0, 0);
		g_etwin.ndraws[0] = g_or.draws; g_etwin.ndraws[1] = 0;
		g_etwin.ok = g_or.nout == 1 && g_or.out[0].status == 1 && g_or.out[0].valid;
		g_etwin.bad_success = g_or.nout == 1 && g_or.out[0].status == 1 && !g_or.out[0].valid;
	} else {
		static HonestOut o; static Plan q;
		q = *p;
		q.efail_node = -1; q.eburst_at = -1;
		conn_run(&q, creds_get((int)q.depth, q.proto == P_TLCP), &o, NULL, NULL);
		RunResult rr; memset(&rr, 0, sizeof(rr));
		honest_oracle(&q, &o, &rr);
		g_etwin.ok = !rr.violated; g_etwin.bad_success = 0;
		g_etwin.ndraws[0] = g_sim.nodes[0].draws; g_etwin.ndraws[1] = g_sim.nodes[1].draws;
	}
}

static void entropy_gen(Plan *p, uint64_t base_seed, uint64_t variant, int tier)
{
	Rng g, v;
	plan_init(p, "entropy");
	p->seed = (int64_t)base_seed;
	rng_seed(&g, base_seed, 0x40c);
	gen_common(p, &g, tier);
	if (rng_chance(&g, 1, 2)) {
		p->op = 0;
		gen_rounds(p, &g, tier, 2, 800);
	} else {
		for (;;) {
			p->op = 1 + rng_below(&g, NOPS - 1);
			if (!g_ops[p->op].slow || rng_chance(&g, 1, 4)) break;
		}
	}
	if (getenv("GMSIM_GEN_NOTWIN")) return;
	etwin(p);
	if (!g_etwin.ok) return;
	rng_seed(&v, base_seed ^ mix64(variant + 1), 0x40d);
	int node = 0;
	if (!p->op) node = (int)(variant & 1);
	uint64_t N = g_etwin.ndraws[node];
	if (N == 0) { node = 1 - node; N = g_etwin.ndraws[node]; }
	if (N == 0) return;
	uint32_t m = rng_below(&v, 100);
	if (!p->op && variant >= 36) {
		p->defect = variant >= 38 ? EM_HISTORY : EM_PAIR;     /* history: two connections served from the same two contexts */
		p->efail_node = -1;
		return;
	}
	if (p->op && variant >= 36) {
		p->defect = variant >= 38 ? EM_HISTORY : EM_PAIR;
		p->op_count = g_ops[p->op].slow ? (tier ? 24 : 6) : (tier ? 60 : 24);
		/* long histories (C18: "sequences of up to 1000 repeated operations in one stream"): fast operations only */
		if (!g_ops[p->op].slow && p->defect == EM_HISTORY && variant == 39) p->op_count = tier ? 1000 : 250;
		return;
	}
	if (m < 85) {
		p->defect = EM_FAIL;
		p->efail_node = node;
		/* single ops: walk every draw index (variant order); handshakes: sampled */
		p->efail_at = p->op ? (int64_t)((variant >> 0) % N) : (int64_t)rng_below(&v, (uint32_t)N);
		p->efail_rest = p->op ? (int64_t)((variant / N) & 1) : rng_below(&v, 2);
		/* what the failing getentropy reports: EIO, EINTR, EAGAIN, ENOSYS, EFAULT, EINVAL, or errno left untouched */
		p->efail_errno = (int64_t[]){ 5, 5, 4, 11, 38, 14, 22, 0 }[rng_below(&v, 8)];
	} else {
		p->defect = EM_BURST;
		p->efail_node = node;
		p->eburst_at = (int64_t)rng_below(&v, (uint32_t)N);
		/* short bursts walk the retry path of rejection sampling; 100+ identical rejected draws exhaust it */
		p->eburst_k = rng_chance(&v, 1, 4) ? (int64_t[]){ 99, 100, 101, 130 }[rng_below(&v, 4)] : 1 + rng_below(&v, 3);
		p->eburst_val = 0xff;   /* all-ones draws are >= every group order: they drive the rejection-sampling retry path */
		/* all-zero draws drive the "scalar must not be zero" retry; not for SM9, whose master-key generation accepts 0 and
		 * later trips an assert (recorded in 12.2, outside the property) */
		if (!(p->op && g_ops[p->op].sm9) && rng_chance(&v, 1, 3)) p->eburst_val = 0x00;
		/* the boundary of the range itself: a draw equal to the group order n, or to n-1 (a private key lives in [1, n-2])
		 * (short bursts only: the long ones keep their share of all-ones draws, which is what exhausts the retry loop) */
		else if (!(p->op && g_ops[p->op].sm9) && p->eburst_k <= 3 && rng_chance(&v, 1, 3)) p->eburst_val = 256 + rng_below(&v, 4);
	}
}

/* ------------------------------------------------------------------- run */
static const char *draw_site(Node *n, char *buf, size_t len)
{
	/* "len<bytes>#<ordinal among draws of that size>" of the draw that failed */
	int64_t idx = n->efail_at;
	int ord = 0;
	if (idx < 0 || idx >= n->ndrawlog) { snprintf(buf, len, "draw%lld", (long long)idx); return buf; }
	for (int i = 0; i < idx; i++) if (n->drawlen[i] == n->drawlen[idx]) ord++;
	snprintf(buf, len, "len%u#%d", n->drawlen[idx], ord);
	return buf;
}

/* ---- two connections, one after the other, from the same client and server contexts ----
 * Whatever a context caches must not make the second connection repeat an ephemeral value of the first: Hello
 * randoms, ephemeral EC points and — recovered from the signatures on the wire with the signer's private key, which
 * the harness holds — the SM2 signing nonces  k = s + (s + r) d  mod n. */
static void twice_task(void *arg)
{
	Endpoint *ep = arg;
	ep_task(ep);
	ep_task(ep + 2);
}

static int sig_nonce(const uint8_t *sig, size_t siglen, const SM2_KEY *key, uint8_t k32[32])
{
	SM2_SIGNATURE s; const uint8_t *q = sig; size_t n = siglen;
	sm2_z256_t r, sv, t, k;
	if (sm2_signature_from_der(&s, &q, &n) != 1 || n) return 0;
	sm2_z256_from_bytes(r, s.r); sm2_z256_from_bytes(sv, s.s);
	sm2_z256_modn_add(t, sv, r);
	sm2_z256_modn_mul(t, t, key->private_key);
	sm2_z256_modn_add(k, sv, t);
	sm2_z256_to_bytes(k, k32);
	return 1;
}

static void two_connections_one_context(const Plan *p, RunResult *r)
{
	const CredSet *cs = creds_get((int)p->depth, p->proto == P_TLCP);
	static Plan q;
	q = *p; q.efail_node = -1; q.efail_at = -1; q.eburst_at = -1; q.interpose = 0; q.cred_mode = 0;
	r->nontrivial = 1;
	r->nontrivial_id = r->fault_id = hash_bytes(0x91b, (int64_t[]){ p->proto, p->mutual, p->ent_c, p->ent_s }, 32);
	arena_begin();
	sim_apply_plan(&q);
	net_reset(); mon_reset(); cap_reset();
	NetKnobs kn; memset(&kn, 0, sizeof(kn));
	kn.seg_style = (int)q.seg_style; kn.max_chunk = (int)q.max_chunk; kn.max_lat_ns = q.max_lat_ns;
	Conn *c1 = net_conn_new(&kn, (uint64_t)q.net_seed), *c2 = net_conn_new(&kn, (uint64_t)q.net_seed + 1);
	int ok = ep_setup(&g_ep[0], 0, c1, &q, cs, 0) == 1 && ep_setup(&g_ep[1], 1, c1, &q, cs, 1) == 1
		&& ep_setup_same_ctx(&g_ep[2], &g_ep[0], c2) == 1 && ep_setup_same_ctx(&g_ep[3], &g_ep[1], c2) == 1;
	if (ok) {
		g_sim.next_event = net_next_event;
		g_sim.on_quiesce = quiesce_handler;
		g_ep[0].task = sim_spawn("client", 0, twice_task, &g_ep[0]);
		g_ep[1].task = sim_spawn("server", 1, twice_task, &g_ep[1]);
		sim_run();
	}
	int done = ok && g_ep[0].hs_ret == 1 && g_ep[1].hs_ret == 1 && g_ep[2].hs_ret == 1 && g_ep[3].hs_ret == 1 && !g_sim.step_capped;
	char what[200] = "";
	if (done) {
		for (int d = 0; d < 2 && !what[0]; d++) {
			const Pipe *a = &c1->pipe[d], *b = &c2->pipe[d];
			const SM2_KEY *signer = d == DIR_S2C ? &cs->srv_sign.key : &cs->cli_sign.key;
			size_t ro = q.proto == P_TLS13 ? 11 : 15, rl = q.proto == P_TLS13 ? 32 : 28;
			if (a->sent_len > 43 && b->sent_len > 43 && !memcmp(a->sent + ro, b->sent + ro, rl))
				snprintf(what, sizeof(what), "hello_random:%s", d ? "server" : "client");
			/* signatures in plaintext handshake messages (ServerKeyExchange, CertificateVerify): the trailing uint16 vector */
			uint8_t k[2][4][32]; int nk[2] = { 0, 0 };
			for (int w = 0; w < 2; w++) {
				const Pipe *pp = w ? b : a;
				for (int i = 0; i < pp->nrecs && i < MAX_REC && nk[w] < 4; i++) {
					const RecInfo *ri = &pp->recs[i];
					if (ri->type != TLS_record_handshake || ri->len < 9 + 70 || !ri->in_hs) continue;
					const uint8_t *m = pp->sent + ri->off;
					if (m[5] != TLS_handshake_server_key_exchange && m[5] != TLS_handshake_certificate_verify) continue;
					size_t bl = ri->len - 9;
					for (size_t at = 0; at + 2 < bl; at++)
						if (((size_t)m[9 + at] << 8 | m[9 + at + 1]) == bl - at - 2 && m[9 + at + 2] == 0x30) {
							if (sig_nonce(m + 9 + at + 2, bl - at - 2, signer, k[w][nk[w]])) nk[w]++;
							break;
						}
				}
			}
			for (int i = 0; i < nk[0] && !what[0]; i++)
				for (int j = 0; j < nk[1]; j++)
					if (!memcmp(k[0][i], k[1][j], 32)) snprintf(what, sizeof(what), "signature_nonce:%s", d ? "server" : "client");
			if (nk[0] && nk[1]) g_sim.probes[PR_EPH_VALIDATED]++;      /* signatures of both connections were found and opened */
		}
	}
	for (int i = 0; i < 4; i++) ep_free(&g_ep[3 - i]);
	arena_end();
	if (!done) { r->twin_failed = 1; return; }
	if (what[0]) {
		rr_violation(r, "x", "proto=%s: two connections served from the same context repeat an ephemeral value (%s)", g_proto_names[p->proto], what);
		snprintf(r->vclass, sizeof(r->vclass), "entropy_reuse:%s:%s", what, g_proto_names[p->proto]);
	}
}

static void entropy_run(const Plan *p, RunResult *r)
{
	char site[48];
	etwin(p);
	snprintf(r->extra, sizeof(r->extra), "mode=%s op=%s proto=%s mutual=%d node=%d at=%lld rest=%d N=%llu/%llu",
		(const char *[]){ "efail", "eburst", "pair", "history" }[p->defect & 3],
		p->op >= 0 && p->op < NOPS ? g_ops[p->op].name : "?", p->op ? "-" : g_proto_names[p->proto], (int)p->mutual, (int)p->efail_node,
		(long long)(p->defect == EM_BURST ? p->eburst_at : p->efail_at), (int)p->efail_rest,
		(unsigned long long)g_etwin.ndraws[0], (unsigned long long)g_etwin.ndraws[1]);
	if (p->op < 0 || p->op >= NOPS) { r->twin_failed = 1; return; }
	if (!g_etwin.ok) {
		r->twin_failed = 1;
		/* no fault at all, success reported, and what came out is not valid (does not verify, or was never filled) */
		if (p->op && g_etwin.bad_success) {
			r->twin_failed = 0; r->nontrivial = 1;
			rr_violation(r, "entropy_op_failed", "%s reported success without any fault but its output is not valid", g_ops[p->op].name);
		}
		return;
	}

	if (p->op) {
		const char *opn = g_ops[p->op].name;
		ops_setup(g_ops[p->op].sm9);
		if (p->defect == EM_PAIR || p->defect == EM_HISTORY) {
			static OpRun a;
			int cnt = (int)(p->op_count > 0 ? p->op_count : 2);
			if (cnt > MAX_REP) cnt = MAX_REP;
			op_exec(p, (uint64_t)p->ent_c, cnt, -1, 0, -1, 0, 0);
			a = g_or;
			r->nontrivial = 1;
			r->nontrivial_id = hash_bytes(0x915, (int64_t[]){ p->op, p->defect, p->ent_c }, 24);
			r->fault_id = r->nontrivial_id;
			for (int i = 0; i < a.nout; i++)
				if (a.out[i].status != 1 || !a.out[i].valid) { rr_violation(r, "entropy_op_failed", "%s repetition %d failed without any fault", opn, i); return; }
			/* no reuse within one stream (sorted, so that histories of 1000 repetitions stay cheap) */
			{
				static EphRef refs[MAX_REP * MAX_EPH];
				int nr = 0;
				for (int i = 0; i < a.nout; i++)
					for (int x = 0; x < a.out[i].neph && nr < (int)(sizeof(refs) / sizeof(refs[0])); x++)
						if (a.out[i].ephlen[x] >= 8) refs[nr++] = (EphRef){ &a.out[i], i, x };
				qsort(refs, (size_t)nr, sizeof(refs[0]), ephref_cmp);
				for (int k = 0; k + 1 < nr; k++)
					if (eph_equal(refs[k].o, refs[k].x, refs[k + 1].o, refs[k + 1].x)) {
						/* values of different kinds inside one repetition may coincide only if identical bytes; that is reuse too */
						const EphRef *lo = ephref_order(&refs[k], &refs[k + 1]) <= 0 ? &refs[k] : &refs[k + 1], *hi = lo == &refs[k] ? &refs[k + 1] : &refs[k];
						rr_violation(r, "x", "%s: ephemeral value %d of repetition %d equals value %d of repetition %d in one entropy stream", opn, lo->x, lo->rep, hi->x, hi->rep);
						snprintf(r->vclass, sizeof(r->vclass), "entropy_reuse:%s", opn);
						return;
					}
			}
			if (p->defect == EM_PAIR) {
				/* same stream again: identical; other stream: all different */
				op_exec(p, (uint64_t)p->ent_c, cnt, -1, 0, -1, 0, 0);
				for (int i = 0; i < a.nout; i++)
					if (g_or.nout != a.nout || g_or.out[i].outhash != a.out[i].outhash) {
						rr_violation(r, "x", "%s: repetition %d differs between two runs on the same entropy stream and clock", opn, i);
						snprintf(r->vclass, sizeof(r->vclass), "nondeterministic_op:%s", opn);
						return;
					}
				op_exec(p, (uint64_t)p->ent_s, cnt, -1, 0, -1, 0, 0);
				for (int i = 0; i < a.nout && i < g_or.nout; i++)
					for (int x = 0; x < a.out[i].neph; x++)
						for (int j = 0; j < g_or.nout; j++)
							for (int y = 0; y < g_or.out[j].neph; y++)
								if (eph_equal(&a.out[i], x, &g_or.out[j], y)) {
									rr_violation(r, "x", "%s: ephemeral value %d/%d is the same under two different entropy streams", opn, i, x);
									snprintf(r->vclass, sizeof(r->vclass), "entropy_indep:%s", opn);
									return;
								}
			}
			return;
		}
		if (p->defect == EM_BURST) {
			op_exec(p, (uint64_t)p->ent_c, 1, -1, 0, p->eburst_at, (int)p->eburst_k, (int)p->eburst_val);
			r->nontrivial = g_sim.nodes[0].eburst_fired > 0;
			r->fault_id = hash_bytes(0x916, (int64_t[]){ p->op, p->eburst_at, p->eburst_k, p->eburst_val }, 32);
			r->nontrivial_id = r->fault_id;
			if (g_or.nout == 1 && g_or.out[0].status == 1 && !g_or.out[0].valid) {
				rr_violation(r, "x", "%s reported success on a degenerate entropy burst at draw %lld but its output does not verify/decrypt", opn, (long long)p->eburst_at);
				snprintf(r->vclass, sizeof(r->vclass), "entropy_burst_bad_output:%s", opn);
			}
			return;
		}
		/* EM_FAIL */
		op_exec(p, (uint64_t)p->ent_c, 1, p->efail_at, (int)p->efail_rest, -1, 0, 0);
		Node *n = &g_sim.nodes[0];
		r->faults_cfg[F_CRASH] = 0;
		r->nontrivial = n->efail_fired;
		r->fault_id = hash_bytes(0x917, (int64_t[]){ p->op, p->efail_at, p->efail_rest }, 24);
		r->nontrivial_id = r->fault_id;
		if (!n->efail_fired && g_or.nout >= 1 && g_or.out[0].status == 1 && !g_or.out[0].valid) {
			rr_violation(r, "entropy_op_failed", "%s reported success without any fault but its output is not valid", opn);
			return;
		}
		/* whatever the operation emitted before/after the failed draw must not repeat an ephemeral value,
		 * and everything it emitted must verify */
		if (n->efail_fired && g_or.nout >= 1) {
			OpOut *oo = &g_or.out[g_or.nout - 1];
			for (int x = 0; x < oo->neph; x++)
				for (int y = x + 1; y < oo->neph; y++)
					if (eph_equal(oo, x, oo, y)) {
						rr_violation(r, "x", "%s: after entropy draw %lld (%s) failed, ephemeral value %d repeats value %d of the same stream", opn, (long long)p->efail_at, draw_site(n, site, sizeof(site)), y, x);
						snprintf(r->vclass, sizeof(r->vclass), "entropy_reuse_after_failure:%s", opn);
						return;
					}
		}
		/* an implementation may ask again after an interrupted or would-block call and carry on with the refilled
		 * buffer: a retry (the very next draw has the failed draw's size) that leads to a valid result is no violation */
		int retried_ok = n->efail_retried && !p->efail_rest && (p->efail_errno == 4 || p->efail_errno == 11)
			&& g_or.nout >= 1 && g_or.out[g_or.nout - 1].status == 1 && g_or.out[g_or.nout - 1].valid;
		if (n->efail_fired && g_or.nout >= 1 && g_or.out[g_or.nout - 1].status == 1 && !retried_ok) {
			rr_violation(r, "x", "%s reported success although its entropy draw %lld (%s) failed", opn, (long long)p->efail_at, draw_site(n, site, sizeof(site)));
			snprintf(r->vclass, sizeof(r->vclass), "entropy_fail_ignored:%s:%s", opn, draw_site(n, site, sizeof(site)));
		}
		return;
	}

	/* ---- handshake mode ---- */
	static HonestOut o;
	if (p->defect == EM_HISTORY) { two_connections_one_context(p, r); return; }
	if (p->defect == EM_PAIR) {
		/* stream pairs on whole connections: (A,A) identical wire transcript; (A,B) every ephemeral public
		 * value differs; within one connection no record IV repeats */
		static Plan q;
		static uint8_t wire[2][2][200000]; static size_t wlen[2][2];      /* [run][dir] */
		static RecInfo recs[2][2][MAX_REC]; static int nrecs[2][2];
		uint64_t h[3] = { 0, 0, 0 };
		int pair_mode = (int)(((uint64_t)p->ent_c ^ (uint64_t)p->ent_s) % 3);      /* 0 both streams change, 1 only the server's, 2 only the client's */
		r->nontrivial = 1;
		r->nontrivial_id = r->fault_id = hash_bytes(0x91a, (int64_t[]){ p->proto, p->mutual, p->ent_c, p->ent_s }, 32);
		static uint8_t g_hr[5][2][32]; static int g_hr_ok[5][2];
		for (int run = 0; run < 6; run++) {
			q = *p;
			q.efail_node = -1; q.eburst_at = -1;
			/* which side gets another stream in the third run: both, only the server, only the client (a value
			 * that one side merely copies from its peer changes when both change, and stays when only that side does) */
			if (run >= 2) {
				if (pair_mode != 2) q.ent_s = p->ent_s ^ (0x3c3c3c3c * (int64_t)(run - 1));
				if (pair_mode != 1) q.ent_c = p->ent_c ^ (0x5a5a5a5a * (int64_t)(run - 1));
			}
			conn_run(&q, creds_get((int)q.depth, q.proto == P_TLCP), &o, NULL, NULL);
			if (o.hs_ret[0] != 1 || o.hs_ret[1] != 1) { r->twin_failed = 1; return; }
			if (run == 0) {
				/* two independent streams: the two Hello randoms of one connection differ */
				const Pipe *a = &g_conns[0].pipe[0], *b = &g_conns[0].pipe[1];
				if (a->sent_len > 43 && b->sent_len > 43 && a->sent[0] == TLS_record_handshake && b->sent[0] == TLS_record_handshake
				    && !memcmp(a->sent + 11, b->sent + 11, 32)) {
					rr_violation(r, "x", "proto=%s: ServerHello.random equals ClientHello.random", g_proto_names[p->proto]);
					snprintf(r->vclass, sizeof(r->vclass), "entropy_indep:hello_random:%s:server", g_proto_names[p->proto]);
					return;
				}
			}
			/* every byte of a Hello random follows the stream: over five different streams of that side no byte
			 * position keeps one value (chance 2^-32 per position for an honest source).  Stated on the wire only,
			 * so an implementation that whitens its entropy (a DRBG) passes just the same. */
			if (run != 1) {
				int k = run == 0 ? 0 : run - 1;
				for (int d = 0; d < 2; d++) {
					const Pipe *pp = &g_conns[0].pipe[d];
					g_hr_ok[k][d] = pp->sent_len > 43 && pp->sent[0] == TLS_record_handshake;
					if (g_hr_ok[k][d]) memcpy(g_hr[k][d], pp->sent + 11, 32);
				}
			}
			if (run > 2) continue;
			for (int d = 0; d < 2; d++) {
				Pipe *pp = &g_conns[0].pipe[d];
				h[run] = hash_bytes(h[run], pp->sent, pp->sent_len);
				if (run != 1) {
					int slot = run == 0 ? 0 : 1;
					wlen[slot][d] = pp->sent_len < sizeof(wire[0][0]) ? pp->sent_len : sizeof(wire[0][0]);
					memcpy(wire[slot][d], pp->sent, wlen[slot][d]);
					nrecs[slot][d] = o.nrecs[d];
					memcpy(recs[slot][d], o.recs[d], sizeof(RecInfo) * (size_t)o.nrecs[d]);
				}
			}
		}
		for (int d = 0; d < 2; d++) {
			if ((pair_mode == 1 && d == DIR_C2S) || (pair_mode == 2 && d == DIR_S2C)) continue;
			size_t r0 = p->proto == P_TLS13 ? 0 : 4;      /* TLCP / TLS 1.2: the first four bytes are the clock */
			int all = 1;
			for (int k = 0; k < 5; k++) all &= g_hr_ok[k][d];
			if (!all) continue;
			for (size_t b = r0; b < 32; b++) {
				int same = 1;
				for (int k = 1; k < 5; k++) same &= g_hr[k][d][b] == g_hr[0][d][b];
				if (same) {
					rr_violation(r, "x", "proto=%s: byte %zu of the %s random has the same value under five different entropy streams of that endpoint",
						g_proto_names[p->proto], b, d ? "ServerHello" : "ClientHello");
					snprintf(r->vclass, sizeof(r->vclass), "entropy_indep:hello_random_byte:%s:%s", g_proto_names[p->proto], d ? "server" : "client");
					return;
				}
			}
		}
		if (h[0] != h[1]) {
			rr_violation(r, "x", "proto=%s: two connections on the same entropy streams, clocks, schedule and network put different bytes on the wire", g_proto_names[p->proto]);
			snprintf(r->vclass, sizeof(r->vclass), "nondeterministic_op:handshake:%s", g_proto_names[p->proto]);
			return;
		}
		/* collect ephemeral values of run A (slot 0) and run B (slot 1): Hello randoms, 65-byte EC points, record IVs */
		for (int d = 0; d < 2; d++) {
			if ((pair_mode == 1 && d == DIR_C2S) || (pair_mode == 2 && d == DIR_S2C)) continue;     /* this side kept its stream */
			/* Hello random: first record of the direction, bytes 11..42 (TLS 1.3: all 32; older: skip the 4 time bytes) */
			size_t ro = p->proto == P_TLS13 ? 11 : 15, rl = p->proto == P_TLS13 ? 32 : 28;
			if (wlen[0][d] > 43 && wlen[1][d] > 43 && !memcmp(wire[0][d] + ro, wire[1][d] + ro, rl)) {
				rr_violation(r, "x", "proto=%s: %s random is the same under two different entropy streams", g_proto_names[p->proto], d ? "ServerHello" : "ClientHello");
				snprintf(r->vclass, sizeof(r->vclass), "entropy_indep:hello_random:%s:%s", g_proto_names[p->proto], d ? "server" : "client");
				return;
			}
			/* EC points in plaintext handshake records: 0x41 0x04 || 64 bytes */
			for (int i = 0; i < nrecs[0][d] && i < nrecs[1][d]; i++) {
				RecInfo *ra = &recs[0][d][i], *rb = &recs[1][d][i];
				if (ra->type != TLS_record_handshake || rb->type != TLS_record_handshake) continue;
				const uint8_t *a = wire[0][d] + ra->off, *b = wire[1][d] + rb->off;
				if (a[5] == TLS_handshake_certificate) continue;      /* long-term keys are the same in both runs by construction */
				for (size_t x = 5; x + 66 <= ra->len && ra->off + ra->len <= wlen[0][d]; x++) {
					if (a[x] != 65 || a[x + 1] != 4) continue;
					for (size_t y = 5; y + 66 <= rb->len && rb->off + rb->len <= wlen[1][d]; y++)
						if (b[y] == 65 && b[y + 1] == 4 && !memcmp(a + x + 2, b + y + 2, 64)) {
							rr_violation(r, "x", "proto=%s: an ephemeral EC point in %s handshake record %d is the same under two different entropy streams", g_proto_names[p->proto], d ? "server" : "client", i);
							snprintf(r->vclass, sizeof(r->vclass), "entropy_indep:ec_point:%s:%s", g_proto_names[p->proto], d ? "server" : "client");
							return;
						}
				}
			}
			/* explicit CBC IVs of protected records (TLCP / TLS 1.2): no repeat within a connection, none shared between A and B */
			if (p->proto != P_TLS13) {
				int seen_ccs = 0;
				for (int i = 0; i < nrecs[0][d]; i++) {
					RecInfo *ra = &recs[0][d][i];
					if (ra->type == TLS_record_change_cipher_spec) { seen_ccs = 1; continue; }
					if (!seen_ccs || ra->len < 5 + 16 || ra->off + ra->len > wlen[0][d]) continue;
					const uint8_t *iva = wire[0][d] + ra->off + 5;
					int ccs2 = 0;
					for (int j = 0; j < i; j++) {
						RecInfo *rj = &recs[0][d][j];
						if (rj->type == TLS_record_change_cipher_spec) { ccs2 = 1; continue; }
						if (!ccs2 || rj->len < 21 || rj->off + rj->len > wlen[0][d]) continue;
						if (!memcmp(iva, wire[0][d] + rj->off + 5, 16)) {
							rr_violation(r, "x", "proto=%s: records %d and %d of one connection (%s) carry the same CBC IV", g_proto_names[p->proto], j, i, d ? "server" : "client");
							snprintf(r->vclass, sizeof(r->vclass), "entropy_reuse:record_iv:%s", g_proto_names[p->proto]);
							return;
						}
					}
					ccs2 = 0;
					for (int j = 0; j < nrecs[1][d]; j++) {
						RecInfo *rj = &recs[1][d][j];
						if (rj->type == TLS_record_change_cipher_spec) { ccs2 = 1; continue; }
						if (!ccs2 || rj->len < 21 || rj->off + rj->len > wlen[1][d]) continue;
						if (!memcmp(iva, wire[1][d] + rj->off + 5, 16)) {
							rr_violation(r, "x", "proto=%s: a record IV is the same under two different entropy streams", g_proto_names[p->proto]);
							snprintf(r->vclass, sizeof(r->vclass), "entropy_indep:record_iv:%s", g_proto_names[p->proto]);
							return;
						}
					}
				}
			}
		}
		return;
	}
	conn_run(p, creds_get((int)p->depth, p->proto == P_TLCP), &o, NULL, NULL);
	int node = (int)p->efail_node;
	if (node < 0 || node > 1) { r->twin_failed = 1; return; }
	Node *n = &g_sim.nodes[node];
	const char *role = node ? "server" : "client";
	if (o.step_capped) { rr_violation(r, "no_termination", "step cap reached"); return; }
	if (p->defect == EM_BURST) {
		r->nontrivial = n->eburst_fired > 0;
		r->fault_id = hash_bytes(0x918, (int64_t[]){ p->proto, p->mutual, node, p->eburst_at, p->eburst_k, p->eburst_val }, 48);
		r->nontrivial_id = r->fault_id;
		if (o.hs_ret[0] == 1 && o.hs_ret[1] == 1) {
			RunResult rr; memset(&rr, 0, sizeof(rr));
			honest_oracle(p, &o, &rr);
			if (rr.violated) {
				rr_violation(r, "x", "degenerate entropy burst at %s draw %lld: both completed but %s: %s", role, (long long)p->eburst_at, rr.vclass, rr.detail);
				snprintf(r->vclass, sizeof(r->vclass), "entropy_burst_bad_output:%s:%s", g_proto_names[p->proto], role);
			}
		}
		return;
	}
	r->nontrivial = n->efail_fired;
	r->fault_id = hash_bytes(0x919, (int64_t[]){ p->proto, p->mutual, p->depth, node, p->efail_at, p->efail_rest }, 48);
	r->nontrivial_id = r->fault_id;
	if (!n->efail_fired) return;
	draw_site(n, site, sizeof(site));
	/* EINTR / EAGAIN answered by an immediate retry of the same draw: the connection may go on */
	if (n->efail_retried && !p->efail_rest && (p->efail_errno == 4 || p->efail_errno == 11)) {
		RunResult rr; memset(&rr, 0, sizeof(rr));
		honest_oracle(p, &o, &rr);
		if (!rr.violated) return;
	}
	/* which phase was the endpoint in when the draw failed? */
	int in_hs = !(o.hs_ret[node] == 1 && o.hs_done_step[node] <= n->efail_step);
	const char *phase = in_hs ? "handshake" : "data";
	/* clause: no record other than an alert leaves the endpoint after the failed draw */
	int dir = node == 0 ? DIR_C2S : DIR_S2C;
	for (int i = 0; i < o.nrecs[dir]; i++) {
		/* an alert sent after the handshake is a protected record of TLCP / TLS 1.2 and needs an IV of its own: if no
		 * draw has succeeded since the failed one, this record was built on the unfilled bytes */
		if (o.recs[dir][i].step > n->efail_step && o.recs[dir][i].type == TLS_record_alert && !o.recs[dir][i].in_hs && p->proto != P_TLS13
		    && (n->efail_next_ok_step == 0 || n->efail_next_ok_step > o.recs[dir][i].step)) {
			rr_violation(r, "x", "proto=%s %s: entropy draw %lld (%s) failed at step %llu, yet a protected alert record (#%d, %zu bytes) left the endpoint before any further draw succeeded",
				g_proto_names[p->proto], role, (long long)p->efail_at, site, (unsigned long long)n->efail_step, i, o.recs[dir][i].len);
			snprintf(r->vclass, sizeof(r->vclass), "entropy_fail_ignored:%s:%s:protected_alert:%s", g_proto_names[p->proto], role, site);
			return;
		}
		if (o.recs[dir][i].step > n->efail_step && o.recs[dir][i].type != TLS_record_alert) {
			rr_violation(r, "x", "proto=%s %s %s: entropy draw %lld (%s, %zu bytes) failed at step %llu, yet the endpoint then put record #%d (type %u, %zu bytes) on the wire; its handshake returned %d",
				g_proto_names[p->proto], role, phase, (long long)p->efail_at, site, n->efail_len, (unsigned long long)n->efail_step,
				i, o.recs[dir][i].type, o.recs[dir][i].len, o.hs_ret[node]);
			snprintf(r->vclass, sizeof(r->vclass), "entropy_fail_ignored:%s:%s:%s:%s", g_proto_names[p->proto], role, phase, site);
			return;
		}
	}
	if (in_hs && o.hs_ret[node] == 1) {
		rr_violation(r, "x", "proto=%s %s: entropy draw %lld (%s) failed during the handshake, which nevertheless returned 1",
			g_proto_names[p->proto], role, (long long)p->efail_at, site);
		snprintf(r->vclass, sizeof(r->vclass), "entropy_fail_ignored:%s:%s:%s:%s", g_proto_names[p->proto], role, phase, site);
		return;
	}
}

const Scenario g_scn_entropy = { "entropy", "C18", 40, entropy_gen, entropy_run };
