/* Invariant monitors that ride on every connection scenario:
 *  - state integrity of TLS_CONNECT (intra-object overflows ASan cannot see)
 *  - C19 leak monitor: secrets must never reach fd 1 / fd 2.           */
#define _GNU_SOURCE
#include "gmsim.h"
#include "sm4_sbox.inc"

extern int g_preempt_on;

/* ------------------------------------------------------- state integrity */
typedef struct StateSnap {
	int valid;
	const TLS_CONNECT *conn;
	int is_client; tls_socket_t sock;
	uint8_t ca[2048]; size_t ca_len;
	uint8_t own[2048]; size_t own_len;
	SM2_KEY sign_key, kenc_key;
} StateSnap;

static StateSnap g_snap[2 * NET_MAX_CONN];
static char g_state_viol[256];

static int all_zero(const void *p, size_t n)
{
	const uint8_t *b = p;
	for (size_t i = 0; i < n; i++) if (b[i]) return 0;
	return 1;
}

static void state_take(StateSnap *s, const TLS_CONNECT *c)
{
	s->valid = 1; s->conn = c;
	s->is_client = c->is_client; s->sock = c->sock;
	memcpy(s->ca, c->ca_certs, sizeof(s->ca)); s->ca_len = c->ca_certs_len;
	if (c->is_client) { memcpy(s->own, c->client_certs, 2048); s->own_len = c->client_certs_len; }
	else { memcpy(s->own, c->server_certs, 2048); s->own_len = c->server_certs_len; }
	s->sign_key = c->sign_key; s->kenc_key = c->kenc_key;
}

static void state_check(StateSnap *s)
{
	const TLS_CONNECT *c = s->conn;
	const char *bad = NULL;
	if (g_state_viol[0]) return;
	if (c->is_client != s->is_client) bad = "is_client";
	else if (c->sock != s->sock) bad = "sock";
	else if (c->ca_certs_len != s->ca_len || memcmp(c->ca_certs, s->ca, s->ca_len)) bad = "ca_certs";
	else if (c->server_certs_len > sizeof(c->server_certs)) bad = "server_certs_len";
	else if (c->client_certs_len > sizeof(c->client_certs)) bad = "client_certs_len";
	else if (c->session_id_len > sizeof(c->session_id)) bad = "session_id_len";
	/* datalen/data are updated in two steps inside the receive path; with function-entry
	 * preemption the monitor can look in between, so they are only checked when it cannot */
	else if (!g_preempt_on && c->datalen > sizeof(c->databuf)) bad = "datalen";
	else if (!g_preempt_on && c->datalen && (c->data < c->databuf || c->data + c->datalen > c->databuf + sizeof(c->databuf))) bad = "data_ptr";
	else {
		const uint8_t *own = c->is_client ? c->client_certs : c->server_certs;
		size_t own_len = c->is_client ? c->client_certs_len : c->server_certs_len;
		/* a client may legitimately drop its certificate and key when none was requested */
		int dropped = c->is_client && own_len == 0;
		if (!dropped && (own_len != s->own_len || memcmp(own, s->own, s->own_len))) bad = "own_certs";
		else if (memcmp(&c->sign_key, &s->sign_key, sizeof(SM2_KEY)) &&
			!(c->is_client && all_zero(&c->sign_key, sizeof(SM2_KEY)))) bad = "sign_key";
		else if (memcmp(&c->kenc_key, &s->kenc_key, sizeof(SM2_KEY))) bad = "kenc_key";
	}
	if (bad) snprintf(g_state_viol, sizeof(g_state_viol), "%s field=%s", c->is_client ? "client" : "server", bad);
}

int mon_state_violation(char *what, size_t n)
{
	if (!g_state_viol[0] && g_net_violation[0]) snprintf(g_state_viol, sizeof(g_state_viol), "field=%s %s", g_net_violation_tag, g_net_violation);
	if (!g_state_viol[0]) return 0;
	snprintf(what, n, "%s", g_state_viol);
	return 1;
}

/* ----------------------------------------------------------- leak monitor */
#define MAX_SECRETS 320
#define MAX_SECRET_LEN 96
typedef struct Secret { char kind[24]; uint8_t v[MAX_SECRET_LEN]; size_t len; } Secret;
static Secret g_sec[MAX_SECRETS];
static int g_nsec;
static int g_sec_overflow;

typedef struct OutSeg { size_t end[2]; int task; } OutSeg;
#define MAX_OUTSEG 4096
static OutSeg g_oseg[MAX_OUTSEG];
static int g_noseg;
static char g_leak[256];
static char g_leak_class[128];

static int low_entropy(const uint8_t *p, size_t n)
{
	uint8_t seen[32] = {0};
	int distinct = 0;
	for (size_t i = 0; i < n; i++)
		if (!(seen[p[i] >> 3] & (1 << (p[i] & 7)))) { seen[p[i] >> 3] |= (uint8_t)(1 << (p[i] & 7)); distinct++; }
	return distinct < 6;
}

void leak_add_secret(const char *kind, const uint8_t *p, size_t n)
{
	if (n < 8) return;
	if (n > MAX_SECRET_LEN) n = MAX_SECRET_LEN;
	if (low_entropy(p, n)) return;
	for (int i = 0; i < g_nsec; i++)
		if (g_sec[i].len == n && !memcmp(g_sec[i].v, p, n)) return;
	if (g_nsec >= MAX_SECRETS) { g_sec_overflow = 1; return; }
	Secret *s = &g_sec[g_nsec++];
	snprintf(s->kind, sizeof(s->kind), "%s", kind);
	memcpy(s->v, p, n); s->len = n;
}

/* invert the SM4 key schedule: round keys -> raw key, validated by re-expansion */
static uint32_t rol(uint32_t x, int k) { return (x << k) | (x >> (32 - k)); }
static uint32_t sm4_tprime(uint32_t b)
{
	uint32_t t = ((uint32_t)SM4_SBOX[b >> 24] << 24) | ((uint32_t)SM4_SBOX[(b >> 16) & 255] << 16)
		| ((uint32_t)SM4_SBOX[(b >> 8) & 255] << 8) | SM4_SBOX[b & 255];
	return t ^ rol(t, 13) ^ rol(t, 23);
}
static int sm4_recover_key(const SM4_KEY *rk, uint8_t raw[16])
{
	static const uint32_t FK[4] = { 0xa3b1bac6, 0x56aa3350, 0x677d9197, 0xb27022dc };
	uint32_t K[8];
	for (int i = 0; i < 4; i++) K[4 + i] = rk->rk[i];
	for (int i = 3; i >= 0; i--) {
		uint32_t ck = 0;
		for (int j = 0; j < 4; j++) ck = (ck << 8) | (uint8_t)((4 * i + j) * 7);
		K[i] = K[i + 4] ^ sm4_tprime(K[i + 1] ^ K[i + 2] ^ K[i + 3] ^ ck);
	}
	for (int i = 0; i < 4; i++) {
		uint32_t w = K[i] ^ FK[i];
		raw[4*i] = (uint8_t)(w >> 24); raw[4*i+1] = (uint8_t)(w >> 16); raw[4*i+2] = (uint8_t)(w >> 8); raw[4*i+3] = (uint8_t)w;
	}
	SM4_KEY chk;
	sm4_set_encrypt_key(&chk, raw);
	return memcmp(&chk, rk, sizeof(chk)) == 0;
}

/* cheap change detection so that the expensive part runs only when a
 * connection's key material actually changed since the last look */
typedef struct { const TLS_CONNECT *c; uint8_t ms[48], kb[96], iv[24]; uint32_t rk[8]; } SecSeen;
static SecSeen g_seen[2 * NET_MAX_CONN];

void leak_collect_conn(const TLS_CONNECT *c)
{
	uint8_t raw[16];
	SecSeen *ss = NULL;
	for (int i = 0; i < 2 * NET_MAX_CONN; i++)
		if (g_seen[i].c == c || !g_seen[i].c) { ss = &g_seen[i]; break; }
	if (ss) {
		if (ss->c == c && !memcmp(ss->ms, c->master_secret, 48) && !memcmp(ss->kb, c->key_block, 96)
		    && !memcmp(ss->iv, c->client_write_iv, 12) && !memcmp(ss->iv + 12, c->server_write_iv, 12)
		    && !memcmp(ss->rk, c->client_write_key.u.sm4_key.rk, 16) && !memcmp(ss->rk + 4, c->server_write_key.u.sm4_key.rk, 16))
			return;
		ss->c = c;
		memcpy(ss->ms, c->master_secret, 48); memcpy(ss->kb, c->key_block, 96);
		memcpy(ss->iv, c->client_write_iv, 12); memcpy(ss->iv + 12, c->server_write_iv, 12);
		memcpy(ss->rk, c->client_write_key.u.sm4_key.rk, 16); memcpy(ss->rk + 4, c->server_write_key.u.sm4_key.rk, 16);
	}
	leak_add_secret("master_secret", c->master_secret, 48);
	leak_add_secret("mac_key", c->key_block, 32);
	leak_add_secret("mac_key", c->key_block + 32, 32);
	leak_add_secret("traffic_key", c->key_block + 64, 16);
	leak_add_secret("traffic_key", c->key_block + 80, 16);
	if (c->protocol == TLS_protocol_tls13) {
		leak_add_secret("traffic_iv", c->client_write_iv, 12);
		leak_add_secret("traffic_iv", c->server_write_iv, 12);
		if (c->client_write_key.cipher && sm4_recover_key(&c->client_write_key.u.sm4_key, raw))
			leak_add_secret("traffic_key", raw, 16);
		if (c->server_write_key.cipher && sm4_recover_key(&c->server_write_key.u.sm4_key, raw))
			leak_add_secret("traffic_key", raw, 16);
	}
}

static void collect_private_key(const char *kind, const SM2_KEY *k)
{
	uint8_t d[32];
	sm2_z256_to_bytes(k->private_key, d);
	leak_add_secret(kind, d, 32);
}

void mon_reset(void)
{
	memset(g_snap, 0, sizeof(g_snap));
	g_state_viol[0] = 0;
	leak_reset();
}

void leak_reset(void)
{
	memset(g_seen, 0, sizeof(g_seen));
	g_nsec = 0; g_sec_overflow = 0; g_noseg = 0; g_leak[0] = 0; g_leak_class[0] = 0;
}

static size_t g_last_end[2];

void mon_on_switch(int task)
{
	/* output attribution */
	fflush(stdout);
	size_t e0 = cap_size(0), e1 = cap_size(1);
	if (g_noseg == 0) g_last_end[0] = g_last_end[1] = 0;
	if ((e0 != g_last_end[0] || e1 != g_last_end[1]) && g_noseg < MAX_OUTSEG) {
		g_oseg[g_noseg].end[0] = e0; g_oseg[g_noseg].end[1] = e1; g_oseg[g_noseg].task = task;
		g_noseg++;
		g_last_end[0] = e0; g_last_end[1] = e1;
	}
	for (int i = 0; i < 2 * NET_MAX_CONN; i++) {
		Endpoint *ep = &g_ep[i];
		if (!ep->conn || i >= 2 * g_nconns) continue;
		StateSnap *s = &g_snap[i];
		if (!s->valid || s->conn != ep->conn) {
			state_take(s, ep->conn);
			collect_private_key("private_key", &ep->conn->sign_key);
			if (!all_zero(&ep->conn->kenc_key, sizeof(SM2_KEY))) collect_private_key("private_key", &ep->conn->kenc_key);
		} else {
			state_check(s);
		}
		leak_collect_conn(ep->conn);
	}
}

/* lower-cased hex digits of the text with separators and 0x removed */
static size_t normalise(const uint8_t *in, size_t n, uint8_t *out, size_t *map)
{
	size_t m = 0;
	for (size_t i = 0; i < n; i++) {
		uint8_t ch = in[i];
		if (ch == ' ' || ch == ':' || ch == ',' || ch == '\n' || ch == '\r' || ch == '\t') continue;
		if (ch == '0' && i + 1 < n && (in[i + 1] == 'x' || in[i + 1] == 'X')) { i++; continue; }
		if (ch >= 'A' && ch <= 'Z') ch = (uint8_t)(ch + 32);
		map[m] = i;
		out[m++] = ch;
	}
	return m;
}

static int task_at(int ch, size_t off)
{
	for (int i = 0; i < g_noseg; i++) if (off < g_oseg[i].end[ch]) return g_oseg[i].task;
	return -1;
}

static uint8_t *g_norm; static size_t *g_map; static size_t g_norm_alloc;

void leak_scan_now(int unused)
{
	(void)unused;
	if (g_leak[0]) return;
	for (int ch = 0; ch < 2; ch++) {
		size_t n;
		const uint8_t *txt = cap_map(ch, &n);
		if (!n) continue;
		if (n > g_norm_alloc) {
			g_norm_alloc = n * 2;
			g_norm = persistent_realloc(g_norm, g_norm_alloc);
			g_map = persistent_realloc(g_map, g_norm_alloc * sizeof(size_t));
			if (!g_norm || !g_map) die("oom");
		}
		size_t m = normalise(txt, n, g_norm, g_map);
		for (int i = 0; i < g_nsec; i++) {
			Secret *s = &g_sec[i];
			for (size_t w = 0; w + 8 <= s->len; w++) {
				if (low_entropy(s->v + w, 8)) continue;
				char hex[17];
				hex_str(hex, s->v + w, 8);
				const uint8_t *hit = m >= 16 ? memmem(g_norm, m, hex, 16) : NULL;
				size_t off = 0; const char *enc = NULL;
				if (hit) { off = g_map[hit - g_norm]; enc = "hex"; }
				else if ((hit = memmem(txt, n, s->v + w, 8))) { off = (size_t)(hit - txt); enc = "raw"; }
				if (!enc) continue;
				int task = task_at(ch, off);
				const char *role = task < 0 ? "main" : (g_sim.tasks[task].name ? g_sim.tasks[task].name : "task");
				snprintf(g_leak_class, sizeof(g_leak_class), "leak:%s:fd%d:%s", s->kind, ch + 1, role);
				snprintf(g_leak, sizeof(g_leak), "%s bytes %zu.. of %s (%s) at offset %zu of fd %d",
					enc, w, s->kind, role, off, ch + 1);
				return;
			}
		}
	}
}

int leak_found(char *what, size_t n)
{
	if (!g_leak[0]) return 0;
	snprintf(what, n, "%s|%s", g_leak_class, g_leak);
	return 1;
}

/* ----------------------------------------------------- deep secret set */
/* Recognise ephemeral secrets among the entropy draws of the two endpoints of
 * connection 0.  A 32-byte draw counts as an ephemeral private key only if
 * the public point it generates (computed with the library) appears on the
 * wire from that node, so a wrong guess cannot create an alarm. */
static int find_point_on_wire(const Pipe *p, const SM2_Z256_POINT *pt)
{
	uint8_t xy[64];
	sm2_z256_point_to_bytes(pt, xy);
	return p->sent_len >= 64 && memmem(p->sent, p->sent_len, xy, 64) != NULL;
}

/* TLS 1.3 key schedule (RFC 8446 7.1) recomputed from the validated ECDHE shared secret and the handshake
 * messages the two endpoints SENT: the handshake/master secrets and the four traffic secrets are locals of
 * tls13_do_connect/accept and exist nowhere in TLS_CONNECT.  The derived server application key is compared
 * with the key recovered from the live connection, so the derivation itself is validated (probe). */
int tls13_record_decrypt(const BLOCK_CIPHER_KEY *key, const uint8_t iv[12],
	const uint8_t seq_num[8], const uint8_t *enced_record, size_t enced_recordlen,
	uint8_t *record, size_t *recordlen);

static void tls13_schedule_collect(Conn *c, const uint8_t shared[64])
{
	const DIGEST *digest = DIGEST_sm3();
	const Pipe *c2s = &c->pipe[DIR_C2S], *s2c = &c->pipe[DIR_S2C];
	static uint8_t rec[TLS_MAX_RECORD_SIZE + 64];
	uint8_t zeros[32] = { 0 }, early[32], hs[32], c_hs[32], s_hs[32], master[32], c_ap[32], s_ap[32];
	uint8_t key[16], iv[12], seq[8] = { 0 };
	DIGEST_CTX null_ctx, ctx;
	BLOCK_CIPHER_KEY bk;
	if (c2s->sent_len < 9 || s2c->sent_len < 9) return;
	size_t chl = 5 + ((size_t)c2s->sent[3] << 8 | c2s->sent[4]);
	size_t shl = 5 + ((size_t)s2c->sent[3] << 8 | s2c->sent[4]);
	if (chl > c2s->sent_len || shl > s2c->sent_len || c2s->sent[0] != TLS_record_handshake || s2c->sent[0] != TLS_record_handshake) return;
	if (digest_init(&null_ctx, digest) != 1 || digest_init(&ctx, digest) != 1) return;
	digest_update(&ctx, c2s->sent + 5, chl - 5);
	digest_update(&ctx, s2c->sent + 5, shl - 5);
	tls13_hkdf_extract(digest, zeros, zeros, early);
	tls13_derive_secret(early, "derived", &null_ctx, hs);
	tls13_hkdf_extract(digest, hs, shared, hs);
	tls13_derive_secret(hs, "c hs traffic", &ctx, c_hs);
	tls13_derive_secret(hs, "s hs traffic", &ctx, s_hs);
	tls13_derive_secret(hs, "derived", &null_ctx, master);
	tls13_hkdf_extract(digest, master, zeros, master);
	leak_add_secret("tls13_handshake_secret", hs, 32);
	leak_add_secret("tls13_handshake_traffic_secret", c_hs, 32);
	leak_add_secret("tls13_handshake_traffic_secret", s_hs, 32);
	leak_add_secret("master_secret", master, 32);
	/* the server's encrypted flight, decrypted with the derived handshake key, completes the transcript */
	tls13_hkdf_expand_label(digest, s_hs, "key", NULL, 0, 16, key);
	tls13_hkdf_expand_label(digest, s_hs, "iv", NULL, 0, 12, iv);
	leak_add_secret("traffic_key", key, 16);
	if (block_cipher_set_encrypt_key(&bk, BLOCK_CIPHER_sm4(), key) != 1) return;
	const RecInfo *ri = s2c->recs;
	int n = s2c->nrecs < MAX_REC ? s2c->nrecs : MAX_REC;
	int fin = 0;
	for (int i = 1; i < n && !fin; i++) {
		size_t rl = sizeof(rec);
		if (ri[i].type == TLS_record_change_cipher_spec) continue;
		if (ri[i].off + ri[i].len > s2c->sent_len || ri[i].len > TLS_MAX_RECORD_SIZE) return;
		if (tls13_record_decrypt(&bk, iv, seq, s2c->sent + ri[i].off, ri[i].len, rec, &rl) != 1) return;
		tls_seq_num_incr(seq);
		if (rec[0] != TLS_record_handshake || rl < 9) continue;
		digest_update(&ctx, rec + 5, rl - 5);
		if (rec[5] == TLS_handshake_finished) fin = 1;
	}
	if (!fin) return;
	tls13_derive_secret(master, "s ap traffic", &ctx, s_ap);
	tls13_derive_secret(master, "c ap traffic", &ctx, c_ap);
	leak_add_secret("tls13_application_traffic_secret", s_ap, 32);
	leak_add_secret("tls13_application_traffic_secret", c_ap, 32);
	tls13_hkdf_expand_label(digest, s_ap, "key", NULL, 0, 16, key);
	for (int e = 0; e < 2; e++) {
		uint8_t raw[16];
		TLS_CONNECT *tc = g_ep[e].conn;
		if (tc && tc->server_write_key.cipher && sm4_recover_key(&tc->server_write_key.u.sm4_key, raw) && !memcmp(raw, key, 16)) {
			g_sim.probes[PR_TLS13_SCHEDULE]++;
			break;
		}
	}
}

void leak_deep_collect(const Plan *p)
{
	if (g_nconns < 1) return;
	Conn *c = &g_conns[0];
	SM2_KEY eph[2]; int have[2] = { 0, 0 };
	for (int node = 0; node < 2; node++) {
		Node *n = &g_sim.nodes[node];
		const Pipe *out = &c->pipe[node == 0 ? DIR_C2S : DIR_S2C];
		for (int i = 0; i < n->ndrawbytes; i++) {
			if (n->drawbytes_len[i] == 46 && p->proto == P_TLCP && node == 0)
				leak_add_secret("pre_master_secret", n->drawbytes[i], 46);
			if (n->drawbytes_len[i] != 32 || have[node]) continue;
			for (int form = 0; form < 2 && !have[node]; form++) {
				sm2_z256_t d; SM2_KEY k;
				if (form == 0) memcpy(d, n->drawbytes[i], 32);
				else sm2_z256_from_bytes(d, n->drawbytes[i]);
				if (sm2_key_set_private_key(&k, d) != 1) continue;
				if (find_point_on_wire(out, &k.public_key)) {
					uint8_t be[32];
					sm2_z256_to_bytes(k.private_key, be);
					leak_add_secret("ephemeral_private_key", be, 32);
					leak_add_secret("ephemeral_private_key", n->drawbytes[i], 32);
					eph[node] = k; have[node] = 1;
				}
			}
		}
	}
	if (have[0] && have[1]) {
		SM2_Z256_POINT sh; uint8_t xy[64];
		if (sm2_do_ecdh(&eph[0], &eph[1].public_key, &sh) == 1) {
			sm2_z256_point_to_bytes(&sh, xy);
			leak_add_secret("ecdhe_shared_secret", xy, 32);
			g_sim.probes[PR_EPH_VALIDATED]++;
			if (p->proto == P_TLS13) tls13_schedule_collect(c, xy);
		}
	}
	/* application plaintext the library decrypted (or could decrypt: it was written by the peer's application) */
	for (int d = 0; d < 2; d++) {
		Endpoint *snd = &g_ep[d == DIR_C2S ? 0 : 1];
		int step = snd->nrecmap > 24 ? snd->nrecmap / 24 : 1;
		for (int k = 0; k < snd->nrecmap; k += step) {
			uint8_t pl[48];
			size_t n = snd->recmap[k].len >= 48 ? 48 : snd->recmap[k].len;
			if (n < 16) continue;
			payload_fill(d, snd->recmap[k].start, pl, n);
			leak_add_secret("decrypted_plaintext", pl, n);
		}
	}
	/* ... and, whatever the sampling, the records next to each fault of the plan, head and tail */
	for (int i = 0; i < p->nfaults; i++) {
		const Fault *f = &p->faults[i];
		if (f->dir < 0 || f->dir > 1) continue;
		Endpoint *snd = &g_ep[f->dir == DIR_C2S ? 0 : 1];
		for (int k = 0; k < snd->nrecmap; k++) {
			if (snd->recmap[k].rec < f->rec - 2 || snd->recmap[k].rec > f->rec + 1) continue;
			uint8_t pl[48];
			size_t len = snd->recmap[k].len, n = len >= 48 ? 48 : len;
			if (n < 16) continue;
			payload_fill(f->dir, snd->recmap[k].start, pl, n);
			leak_add_secret("decrypted_plaintext", pl, n);
			if (len >= 96) { payload_fill(f->dir, snd->recmap[k].start + len - 48, pl, 48); leak_add_secret("decrypted_plaintext", pl, 48); }
		}
	}
	/* application plaintext an endpoint received */
	for (int d = 0; d < 2; d++) {
		Endpoint *rcv = &g_ep[d == DIR_C2S ? 1 : 0];
		if (rcv->got[d] >= 32) {
			uint8_t pl[64];
			payload_fill(d, 0, pl, 64);
			leak_add_secret("decrypted_plaintext", pl, rcv->got[d] >= 64 ? 64 : 32);
		}
	}
}
