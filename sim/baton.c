/* Hand-off primitive.  Built WITHOUT any sanitizer in every variant so that
 * ThreadSanitizer does not see the hand-off as synchronisation (DESIGN 4.8). */
#define _GNU_SOURCE
#include <stdint.h>
#include <unistd.h>
#include <sys/syscall.h>
#include <linux/futex.h>

static long futex(uint32_t *uaddr, int op, uint32_t val)
{
	return syscall(SYS_futex, uaddr, op, val, (void *)0, (void *)0, 0);
}

void baton_wait(uint32_t *w)
{
	for (;;) {
		uint32_t v = __atomic_load_n(w, __ATOMIC_ACQUIRE);
		if (v) {
			__atomic_store_n(w, 0, __ATOMIC_RELAXED);
			return;
		}
		futex(w, FUTEX_WAIT_PRIVATE, 0);
	}
}

void baton_pass(uint32_t *w)
{
	__atomic_store_n(w, 1, __ATOMIC_RELEASE);
	futex(w, FUTEX_WAKE_PRIVATE, 1);
}

/* byte copy that is not a call to memcpy (TSan intercepts memcpy even when the
 * caller is uninstrumented; the simulated kernel's copies between the two
 * ends of a pipe are not accesses of the code under test) */
#include <stddef.h>
#include <string.h>
void sim_copy(void *dst, const void *src, size_t n)
{
#ifdef GMSIM_TSAN
	volatile unsigned char *d = dst;
	const volatile unsigned char *s = src;
	while (n--) *d++ = *s++;
#else
	memcpy(dst, src, n);
#endif
}
