/* gmsim — deterministic simulation harness for GmSSL (see /verif/DESIGN.md).
 * Everything nondeterministic the library can touch (send/recv/usleep/time/
 * getentropy, caller-thread scheduling) is owned by this simulator and
 * decided by seeded PRNG streams. */
#ifndef GMSIM_H
#define GMSIM_H

#include <stdint.h>
#include <stddef.h>
#include <stdio.h>
#include <string.h>
#include <stdlib.h>
#include <errno.h>
#include <pthread.h>
#include <sys/types.h>

/* ------------------------------------------------------------------ rng */
typedef struct { uint64_t s[4]; } Rng;
uint64_t mix64(uint64_t x);
void     rng_seed(Rng *r, uint64_t seed, uint64_t stream);
uint64_t rng_u64(Rng *r);
uint32_t rng_below(Rng *r, uint32_t n);           /* 0..n-1, n>0 */
int      rng_chance(Rng *r, uint32_t num, uint32_t den);
void     rng_bytes(Rng *r, uint8_t *buf, size_t n);

/* ---------------------------------------------------------------- baton */
void baton_wait(uint32_t *w);
void baton_pass(uint32_t *w);

/* ----------------------------------------------------------------- core */
#define SIM_MAX_TASKS   40
#define SIM_MAX_NODES   40
#define SIM_T0          1790000000LL      /* simulated epoch (seconds) */
#define SIM_STACK_SIZE  (4u << 20)

enum { ST_NEW = 0, ST_RUNNABLE, ST_BLOCKED, ST_SLEEPING, ST_DONE };

/* trace event kinds (small ints; part of the fingerprint) */
enum {
	EV_START = 1, EV_EXIT, EV_SEND, EV_RECV, EV_SLEEP, EV_TIME, EV_ENT,
	EV_BLOCK, EV_WAKE, EV_CLOSE, EV_APP, EV_FAULT, EV_HOOK, EV_QUIESCE,
	EV_OPRES, EV_NOTE
};

typedef int (*WaitPred)(void *arg);

typedef struct Task {
	int id, node, state;
	const char *name;
	int64_t wake_at;
	WaitPred pred; void *pred_arg;
	void (*fn)(void *); void *arg;
	uint32_t turn;
	pthread_t th;
	uint8_t *stack;
	int prio;                /* PCT priority (threads scenario) */
	WaitPred retry_pred; void *retry_arg;   /* set when a nonblocking call just returned EAGAIN */
	uint64_t quanta;
} Task;

typedef struct {
	int64_t at_ns; int64_t delta_s;
} ClockJump;

#define SIM_MAX_TIMELOG 64
typedef struct Node {
	/* clock */
	int64_t skew_s;
	ClockJump jumps[4]; int njumps;
	int64_t timelog[SIM_MAX_TIMELOG]; int ntimelog;   /* values time() returned */
	/* entropy */
	Rng ent;
	uint64_t draws;              /* number of getentropy calls so far */
	uint64_t ent_bytes;
	int64_t efail_at;            /* draw index that fails (-1 none) */
	int efail_rest;              /* 1: all later draws fail too */
	int efail_errno;             /* errno the failing call reports (0 = leave errno untouched) */
	int64_t eburst_at; int eburst_k; int eburst_val;   /* 0..255: that byte; 256..: boundary patterns (wraps.c) */
	int efail_fired, eburst_fired;
	uint64_t efail_next_ok_step;          /* sim step of the first successful draw after the failed one (0: none) */
	int efail_next_seen, efail_retried;   /* the draw right after the first failed one asked for the same number of bytes: a retry */
	/* allocator: the library's malloc calls made by tasks of this node */
	uint64_t nmalloc; int64_t afail_at; int afail_rest; int afail_fired;
	uint64_t efail_step;         /* sim step at which the failure was injected */
	size_t efail_len;
	/* draw log (for C18 oracles) */
	uint16_t drawlen[512]; int ndrawlog;
	/* first draws with their bytes (leak monitor: recognise ephemeral secrets) */
	uint8_t drawbytes[160][48]; uint8_t drawbytes_len[160]; int ndrawbytes;
} Node;

typedef struct Sim {
	int64_t now;                 /* ns */
	Task tasks[SIM_MAX_TASKS]; int ntasks;
	Node nodes[SIM_MAX_NODES];
	int cur;                     /* running task, -1 = main */
	uint32_t main_turn;
	Rng sched;
	uint32_t stay_num, stay_den; /* probability to keep running the same task */
	int pct;                     /* PCT mode for function-entry preemption */
	int pct_left;
	uint64_t step, step_cap;
	uint64_t fp;                 /* fingerprint over all events */
	uint64_t ileave;             /* interleaving id over (task,kind) */
	uint64_t switches;
	int abort;                   /* all blocking calls fail fast */
	int quiesced;                /* quiescence handler ran */
	int step_capped;
	int (*next_event)(int64_t *at);     /* earliest pending timed event > now */
	int (*on_quiesce)(void);            /* returns 1 if it changed something that may unblock a task */
	void (*on_switch)(int from_task);   /* monitors: called when a task quantum ends */
	FILE *log;                   /* optional full event log */
	/* reach probes */
	uint64_t probes[32];
} Sim;

extern Sim g_sim;
#define t_task (g_sim.cur)        /* index of the running task, -1 = main thread outside sim_run */
extern FILE *g_out;               /* harness's own output (real stdout) */
extern int g_capfd[2];            /* memfds standing in for fd 1 and fd 2 */

void sim_reset(uint64_t sched_seed);
int  sim_spawn(const char *name, int node, void (*fn)(void *), void *arg);
void sim_run(void);                              /* main thread: run until all tasks done */
void sim_trace(int kind, int64_t a, int64_t b);
void sim_yield(int kind, int64_t a, int64_t b);  /* scheduling point */
extern int g_setup_node;                          /* >= 0 while the harness sets up that node's endpoint outside any task */
void sim_progress(void);                         /* heartbeat for the CPU watchdog between library calls inside one step */
int  sim_block(WaitPred pred, void *arg);        /* returns 0 ok, -1 aborted */
void sim_sleep(int64_t ns);
void sim_retry_wait(int64_t ns);                /* sleep of an EAGAIN retry loop: wakes when the awaited condition can hold */
int64_t sim_node_time(int node);                 /* seconds, node-local clock */
void sim_abort_run(void);
void sim_watchdog_start(void);
void sim_set_phase(const char *what);
void preempt_reset(int pct_d);
void sim_copy(void *dst, const void *src, size_t n);   /* copy that no sanitizer interceptor sees */            /* for hang reports */
Task *sim_cur(void);

enum {
	PR_SHORT_READ, PR_SHORT_WRITE, PR_EAGAIN_MID, PR_EAGAIN_BOUNDARY, PR_SEND_BLOCKED,
	PR_HDR_SPLIT, PR_REC_MAX, PR_CLOCK_JUMP_HS, PR_TLS13_PAD, PR_QUIESCED,
	PR_FAULT_FIRED, PR_ONE_BYTE_SEG, PR_COALESCED, PR_EBURST, PR_EPH_VALIDATED, PR_TLS13_SCHEDULE, PR_NPROBES
};
extern const char *g_probe_names[];

/* -------------------------------------------------------------- capture */
void cap_init(void);             /* dup2 memfds over fd 1/2, g_out = real stdout */
void cap_reset(void);
size_t cap_size(int ch);
const uint8_t *cap_map(int ch, size_t *len);   /* snapshot copy of channel content */

/* ------------------------------------------------------------------ net */
#define NET_MAX_CONN 10
#define MAX_REC 400

enum { DIR_C2S = 0, DIR_S2C = 1 };

typedef struct { size_t end; int64_t at; } Seg;

typedef struct RecInfo {       /* one TLS record as seen on the wire */
	size_t off, len;           /* offset in transcript, total length incl. header */
	uint8_t type; uint16_t ver;
	uint64_t step;             /* sim step when completed by the sender */
	uint8_t in_hs;             /* sender had not yet returned from its handshake */
} RecInfo;

typedef struct Pipe {
	uint8_t *buf; size_t alloc, wr, rd;
	Seg *segs; int nseg, seg_alloc, seg_head;
	int64_t last_at;
	int closed_wr;             /* writer side closed (after delivering everything) */
	int closed_rd;             /* reader gone: sends fail with EPIPE */
	size_t capacity;           /* max bytes in flight */
	/* pre-interposer stream */
	uint8_t *sent; size_t sent_len, sent_alloc;     /* every byte accepted from the sender */
	size_t fwd;                /* bytes of `sent` already forwarded (record aligned when interposing) */
	RecInfo recs[MAX_REC]; int nrecs; size_t rec_parsed;   /* records found in `sent` */
	/* delivered stream == buf[0..wr) (never compacted inside a run) */
	uint64_t n_send, n_recv, n_short_rd, n_short_wr, n_eagain;
} Pipe;

typedef struct NetKnobs {
	int seg_style;        /* 0 write-sized, 1 one-byte, 2 random chunks, 3 hdr split, 4 coalesce */
	int seg_late;         /* 1: the handshake flights travel write-sized, seg_style applies from the first application record on */
	int max_chunk;
	int64_t max_lat_ns;
	int short_write;      /* 0 never, N: probability N/16 per send */
	int eagain;           /* 0 blocking, 1 nonblocking emulation */
	size_t capacity;      /* 0 = unbounded */
} NetKnobs;

struct Conn;
typedef struct Conn {
	int id;
	int fd[2];                  /* [0]=client end, [1]=server end */
	Pipe pipe[2];               /* [DIR_C2S], [DIR_S2C] */
	NetKnobs knobs;
	Rng net;
	int interpose;              /* record-aware forwarding on */
	int check_tx;               /* both ends are TLS record layers: check what they offer to send() */
	int hs_phase[2];            /* set by endpoints: 0 handshake, 1 done (allows boundary EAGAIN) */
	void *user;
	/* interposer callback: called with one complete record from the sender;
	 * must forward (possibly modified/none/several) with net_forward(). */
	void (*on_record)(struct Conn *c, int dir, int idx, const uint8_t *rec, size_t len);
} Conn;

extern Conn g_conns[NET_MAX_CONN];
extern char g_net_violation[160];
extern const char *g_net_violation_tag;
void net_guard_array(const void *base, size_t size, const char *name);
extern int g_nconns;

void  net_reset(void);
Conn *net_conn_new(const NetKnobs *k, uint64_t net_seed);
void  net_forward(Conn *c, int dir, const uint8_t *data, size_t len);  /* append to delivered stream */
void  net_close_end(Conn *c, int side);     /* side 0 client, 1 server: close both directions for that end */
void  net_close_all(void);
int   net_next_event(int64_t *at);
Conn *net_lookup(int fd, int *side);
ssize_t net_send(int fd, const void *buf, size_t len);
ssize_t net_recv(int fd, void *buf, size_t len);
int   net_is_simfd(int fd);
void  net_parse_records(Pipe *p);

void arena_begin(void);
void arena_end(void);
void *persistent_realloc(void *p, size_t n);   /* for buffers that outlive a run */

/* libc originals */
ssize_t __real_send(int, const void *, size_t, int);
ssize_t __real_recv(int, void *, size_t, int);
int __real_usleep(unsigned);
time_t __real_time(time_t *);
int __real_getentropy(void *, size_t);
int __real_close(int);

/* ---------------------------------------------------------------- utils */
uint64_t hash_bytes(uint64_t h, const void *p, size_t n);
void hex_str(char *out, const uint8_t *in, size_t n);
void die(const char *fmt, ...) __attribute__((noreturn, format(printf, 1, 2)));

#endif
