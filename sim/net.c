/* Simulated TCP: per connection two unidirectional byte pipes with seeded
 * segmentation, latency, short writes, bounded buffers, EAGAIN emulation and
 * an optional record-aware interposer hook. */
#define _GNU_SOURCE
#include "sim.h"
#include <fcntl.h>
#include <unistd.h>

Conn g_conns[NET_MAX_CONN];
int g_nconns;

static struct { Conn *c; int side; } g_fdmap[1024];

/* sender-side framing of the bytes *offered* to send(): an honest record layer offers the rest of the
 * current record (GmSSL: exactly that).  Offered bytes beyond the end of the current record that do not
 * form well-formed record headers mean the library is reading past its record buffer. */
typedef struct { int hdr_got; size_t body_left; uint8_t hdr[5]; } TxFrame;
static TxFrame g_tx[NET_MAX_CONN][2];
char g_net_violation[160];
const char *g_net_violation_tag = "send_overrun";

/* arrays inside library objects that the library hands to recv(): a recv() that RETURNS more bytes than fit
 * between its destination and the end of the array wrote outside that array (inside TLS_CONNECT the next
 * field absorbs it, so no sanitizer sees it) */
static struct { const uint8_t *base; size_t size; const char *name; } g_guard[16];
static int g_nguard;
void net_guard_array(const void *base, size_t size, const char *name)
{
	if (g_nguard < 16) { g_guard[g_nguard].base = base; g_guard[g_nguard].size = size; g_guard[g_nguard].name = name; g_nguard++; }
}
static void rx_guard_check(const uint8_t *buf, size_t asked, size_t got)
{
	for (int i = 0; i < g_nguard; i++) {
		const uint8_t *b = g_guard[i].base, *e = b + g_guard[i].size;
		if (buf >= b && buf < e && buf + got > e && !g_net_violation[0]) {
			g_net_violation_tag = "recv_overrun";
			snprintf(g_net_violation, sizeof(g_net_violation), "recv() into %s at offset %zu asked for %zu bytes and stored %zu: %zu bytes beyond the end of the %zu-byte array",
				g_guard[i].name, (size_t)(buf - b), asked, got, (size_t)(buf + got - e), g_guard[i].size);
		}
	}
}

static int plausible_hdr(const uint8_t *h)
{
	size_t len = ((size_t)h[3] << 8) | h[4];
	return h[0] >= 20 && h[0] <= 24 && (h[1] == 1 || h[1] == 3) && h[2] <= 4 && len <= 18432 + 256;
}

static void tx_check(Conn *c, int dir, const uint8_t *buf, size_t len, size_t accepted)
{
	TxFrame *tx = &g_tx[c->id][dir];
	/* look at everything that was offered, but advance the state only by what was accepted */
	TxFrame t = *tx;
	size_t i = 0;
	int past_first = 0;
	while (i < len) {
		if (t.body_left) { size_t m = len - i < t.body_left ? len - i : t.body_left; t.body_left -= m; i += m; if (!t.body_left) past_first = 1; continue; }
		t.hdr[t.hdr_got++] = buf[i++];
		if (t.hdr_got == 5) {
			if (past_first && !plausible_hdr(t.hdr) && !g_net_violation[0])
				snprintf(g_net_violation, sizeof(g_net_violation), "send() was offered %zu bytes, %zu of them beyond the end of the current record and not a record (%02x %02x %02x %02x %02x)",
					len, len - i + 5, t.hdr[0], t.hdr[1], t.hdr[2], t.hdr[3], t.hdr[4]);
			t.body_left = ((size_t)t.hdr[3] << 8) | t.hdr[4];
			t.hdr_got = 0;
			if (!t.body_left) past_first = 1;
		}
	}
	/* advance */
	for (i = 0; i < accepted; ) {
		if (tx->body_left) { size_t m = accepted - i < tx->body_left ? accepted - i : tx->body_left; tx->body_left -= m; i += m; continue; }
		tx->hdr[tx->hdr_got++] = buf[i++];
		if (tx->hdr_got == 5) { tx->body_left = ((size_t)tx->hdr[3] << 8) | tx->hdr[4]; tx->hdr_got = 0; }
	}
}

/* per-pipe receive framing state (mirrors tls_record_recv's read pattern) */
typedef struct { int hdr_got; size_t body_left; uint8_t hdr[5]; } RxFrame;
static RxFrame g_rx[NET_MAX_CONN][2];

static void pipe_reset(Pipe *p)
{
	uint8_t *buf = p->buf, *sent = p->sent; Seg *segs = p->segs;
	size_t a = p->alloc, sa = p->sent_alloc; int ga = p->seg_alloc;
	memset(p, 0, sizeof(*p));
	p->buf = buf; p->alloc = a; p->sent = sent; p->sent_alloc = sa; p->segs = segs; p->seg_alloc = ga;
}

void net_reset(void)
{
	for (int i = 0; i < g_nconns; i++) {
		Conn *c = &g_conns[i];
		for (int s = 0; s < 2; s++) {
			if (c->fd[s] > 0 && c->fd[s] < 1024) g_fdmap[c->fd[s]].c = NULL;
			pipe_reset(&c->pipe[s]);
		}
	}
	memset(g_rx, 0, sizeof(g_rx));
	memset(g_tx, 0, sizeof(g_tx));
	g_net_violation[0] = 0; g_net_violation_tag = "send_overrun"; g_nguard = 0;
	g_nconns = 0;
}

static int g_fdpool[NET_MAX_CONN][2];

Conn *net_conn_new(const NetKnobs *k, uint64_t net_seed)
{
	if (g_nconns >= NET_MAX_CONN) die("too many conns");
	int id = g_nconns++;
	Conn *c = &g_conns[id];
	Pipe keep[2] = { c->pipe[0], c->pipe[1] };
	memset(c, 0, sizeof(*c));
	c->pipe[0] = keep[0]; c->pipe[1] = keep[1];
	c->id = id;
	c->knobs = *k;
	rng_seed(&c->net, net_seed, 0x4e7 + id);
	for (int s = 0; s < 2; s++) {
		if (!g_fdpool[id][s]) {
			int fd = open("/dev/null", O_RDWR | O_CLOEXEC);
			if (fd < 0 || fd >= 1024) die("open /dev/null");
			g_fdpool[id][s] = fd;
		}
		c->fd[s] = g_fdpool[id][s];
		g_fdmap[c->fd[s]].c = c;
		g_fdmap[c->fd[s]].side = s;
		c->pipe[s].capacity = k->capacity;
	}
	return c;
}

Conn *net_lookup(int fd, int *side)
{
	if (fd < 0 || fd >= 1024 || !g_fdmap[fd].c) return NULL;
	if (side) *side = g_fdmap[fd].side;
	return g_fdmap[fd].c;
}

int net_is_simfd(int fd) { return net_lookup(fd, NULL) != NULL; }

static void ensure(uint8_t **buf, size_t *alloc, size_t need)
{
	if (need <= *alloc) return;
	size_t n = *alloc ? *alloc : 65536;
	while (n < need) n *= 2;
	*buf = persistent_realloc(*buf, n);
	if (!*buf) die("oom");
	*alloc = n;
}

static void seg_push(Pipe *p, size_t end, int64_t at)
{
	if (p->nseg >= p->seg_alloc) {
		p->seg_alloc = p->seg_alloc ? p->seg_alloc * 2 : 256;
		p->segs = persistent_realloc(p->segs, sizeof(Seg) * (size_t)p->seg_alloc);
		if (!p->segs) die("oom");
	}
	if (at < p->last_at) at = p->last_at;
	p->last_at = at;
	p->segs[p->nseg].end = end;
	p->segs[p->nseg].at = at;
	p->nseg++;
}

/* append bytes to the delivered stream of (c,dir), cutting them into segments */
static int pipe_sender_in_hs(Pipe *p);
void net_forward(Conn *c, int dir, const uint8_t *data, size_t len)
{
	Pipe *p = &c->pipe[dir];
	NetKnobs *k = &c->knobs;
	if (!len) return;
	ensure(&p->buf, &p->alloc, p->wr + len);
	sim_copy(p->buf + p->wr, data, len);
	size_t pos = p->wr, end = p->wr + len;
	p->wr = end;
	int style = k->seg_style;
	if (k->seg_late && pipe_sender_in_hs(p)) style = 0;     /* segmentation starts only once the sender has finished its handshake */
	size_t onebyte_budget = 600;
	while (pos < end) {
		size_t n = end - pos;
		switch (style) {
		case 1:
			if (onebyte_budget) { n = 1; onebyte_budget--; g_sim.probes[PR_ONE_BYTE_SEG]++; }
			else if (k->max_chunk > 0 && n > (size_t)k->max_chunk) n = 1 + rng_below(&c->net, (uint32_t)k->max_chunk);
			break;
		case 2:
			if (k->max_chunk > 0) {
				size_t m = 1 + rng_below(&c->net, (uint32_t)k->max_chunk);
				if (m < n) n = m;
			}
			break;
		case 3:
			if (pos == end - len && len > 5) {
				n = rng_chance(&c->net, 1, 3) ? 1 + rng_below(&c->net, 4) : 5;
				g_sim.probes[PR_HDR_SPLIT]++;
			}
			break;
		default:
			break;
		}
		int64_t lat = 0;
		if (k->max_lat_ns > 0) lat = (int64_t)(rng_u64(&c->net) % (uint64_t)(k->max_lat_ns + 1));
		pos += n;
		seg_push(p, pos, g_sim.now + lat);
	}
}

static int pipe_sender_in_hs(Pipe *p)
{
	for (int i = 0; i < g_nconns; i++)
		for (int d = 0; d < 2; d++)
			if (&g_conns[i].pipe[d] == p) return !g_conns[i].hs_phase[d == DIR_C2S ? 0 : 1];
	return 0;
}

void net_parse_records(Pipe *p)
{
	while (p->sent_len - p->rec_parsed >= 5) {
		const uint8_t *h = p->sent + p->rec_parsed;
		size_t len = 5 + (((size_t)h[3] << 8) | h[4]);
		if (p->sent_len - p->rec_parsed < len) break;
		if (p->nrecs < MAX_REC) {
			RecInfo *r = &p->recs[p->nrecs];
			r->off = p->rec_parsed; r->len = len; r->type = h[0];
			r->ver = (uint16_t)((h[1] << 8) | h[2]);
			r->step = g_sim.step;
			r->in_hs = (uint8_t)pipe_sender_in_hs(p);
		}
		p->nrecs++;
		p->rec_parsed += len;
	}
}

static size_t arrived(Pipe *p)
{
	/* number of readable bytes now */
	size_t end = p->rd;
	for (int i = p->seg_head; i < p->nseg && p->segs[i].at <= g_sim.now; i++) end = p->segs[i].end;
	return end > p->rd ? end - p->rd : 0;
}

static size_t first_seg_avail(Pipe *p)
{
	while (p->seg_head < p->nseg && p->segs[p->seg_head].end <= p->rd) p->seg_head++;
	if (p->seg_head < p->nseg && p->segs[p->seg_head].at <= g_sim.now)
		return p->segs[p->seg_head].end - p->rd;
	return 0;
}

static int pred_readable(void *arg)
{
	Pipe *p = arg;
	while (p->seg_head < p->nseg && p->segs[p->seg_head].end <= p->rd) p->seg_head++;
	if (p->seg_head < p->nseg) return p->segs[p->seg_head].at <= g_sim.now;
	return p->closed_wr;         /* drained and closed -> EOF is observable */
}

/* bytes waiting in the interposer for the rest of their record do not count:
 * a man in the middle has its own buffer */
static size_t inflight(Pipe *p) { return p->wr - p->rd; }

static int pred_writable(void *arg)
{
	Pipe *p = arg;
	return p->closed_rd || p->closed_wr || !p->capacity || inflight(p) < p->capacity;
}

int net_next_event(int64_t *at)
{
	int found = 0; int64_t best = INT64_MAX;
	for (int i = 0; i < g_nconns; i++)
		for (int d = 0; d < 2; d++) {
			Pipe *p = &g_conns[i].pipe[d];
			while (p->seg_head < p->nseg && p->segs[p->seg_head].end <= p->rd) p->seg_head++;
			if (p->seg_head < p->nseg && p->segs[p->seg_head].at > g_sim.now
			    && p->segs[p->seg_head].at < best) {
				best = p->segs[p->seg_head].at; found = 1;
			}
		}
	*at = best;
	return found;
}

static void pump_interposer(Conn *c, int dir)
{
	Pipe *p = &c->pipe[dir];
	for (;;) {
		size_t have = p->sent_len - p->fwd;
		if (have < 5) return;
		const uint8_t *h = p->sent + p->fwd;
		size_t len = 5 + (((size_t)h[3] << 8) | h[4]);
		if (have < len) return;
		int idx = 0;
		/* index of this record in the sender's stream */
		for (int i = 0; i < p->nrecs && i < MAX_REC; i++)
			if (p->recs[i].off == p->fwd) { idx = i; break; }
		size_t off = p->fwd;
		p->fwd += len;
		if (c->on_record) c->on_record(c, dir, idx, p->sent + off, len);
		else net_forward(c, dir, p->sent + off, len);
	}
}

ssize_t net_send(int fd, const void *buf, size_t len)
{
	int side = 0;
	Conn *c = net_lookup(fd, &side);
	int dir = side == 0 ? DIR_C2S : DIR_S2C;
	Pipe *p = &c->pipe[dir];
	NetKnobs *k = &c->knobs;

	if (g_sim.abort) { errno = ECONNRESET; return -1; }
	if (len == 0) return 0;
	if (p->closed_rd || p->closed_wr) {
		sim_yield(EV_SEND, -EPIPE, c->id * 2 + dir);
		errno = EPIPE; return -1;
	}
	if (p->capacity && inflight(p) >= p->capacity) {
		g_sim.probes[PR_SEND_BLOCKED]++;
		if (k->eagain) {
			p->n_eagain++;
			sim_cur()->retry_pred = pred_writable; sim_cur()->retry_arg = p;
			sim_yield(EV_SEND, -EAGAIN, c->id * 2 + dir);
			errno = EAGAIN; return -1;
		}
		if (sim_block(pred_writable, p) < 0) { errno = ECONNRESET; return -1; }
		if (p->closed_rd || p->closed_wr) { errno = EPIPE; return -1; }
	}
	size_t n = len;
	if (p->capacity) {
		size_t room = p->capacity - inflight(p);
		if (n > room) n = room;
	}
	if (k->short_write && n > 1 && rng_chance(&c->net, (uint32_t)k->short_write, 16)) {
		n = 1 + rng_below(&c->net, (uint32_t)(n - 1));
		p->n_short_wr++;
		g_sim.probes[PR_SHORT_WRITE]++;
	}
	if (c->check_tx) tx_check(c, dir, buf, len, n);
	ensure(&p->sent, &p->sent_alloc, p->sent_len + n);
	sim_copy(p->sent + p->sent_len, buf, n);
	p->sent_len += n;
	p->n_send++;
	net_parse_records(p);
	if (c->interpose) {
		pump_interposer(c, dir);
	} else {
		net_forward(c, dir, p->sent + p->fwd, p->sent_len - p->fwd);
		p->fwd = p->sent_len;
	}
	sim_yield(EV_SEND, (int64_t)n, c->id * 2 + dir);
	return (ssize_t)n;
}

ssize_t net_recv(int fd, void *buf, size_t len)
{
	int side = 0;
	Conn *c = net_lookup(fd, &side);
	int dir = side == 0 ? DIR_S2C : DIR_C2S;
	Pipe *p = &c->pipe[dir];
	NetKnobs *k = &c->knobs;
	RxFrame *rx = &g_rx[c->id][dir];

	if (len == 0) return 0;
	for (;;) {
		if (g_sim.abort) { errno = ECONNRESET; return -1; }
		if (first_seg_avail(p) > 0) break;
		if (p->seg_head >= p->nseg && p->closed_wr) {
			sim_yield(EV_RECV, 0, c->id * 2 + dir);
			return 0;
		}
		if (k->eagain) {
			int boundary = (rx->hdr_got == 0 && rx->body_left == 0);
			if (!boundary || c->hs_phase[side]) {
				p->n_eagain++;
				g_sim.probes[boundary ? PR_EAGAIN_BOUNDARY : PR_EAGAIN_MID]++;
				sim_cur()->retry_pred = pred_readable; sim_cur()->retry_arg = p;
				sim_yield(EV_RECV, -EAGAIN, c->id * 2 + dir);
				errno = EAGAIN; return -1;
			}
		}
		if (sim_block(pred_readable, p) < 0) { errno = ECONNRESET; return -1; }
	}
	size_t n = first_seg_avail(p);
	if (k->seg_style == 4 || rng_chance(&c->net, 1, 4)) {
		size_t all = arrived(p);
		if (all > n) { n = all; g_sim.probes[PR_COALESCED]++; }
	}
	if (n > len) n = len;
	else if (n < len) { p->n_short_rd++; g_sim.probes[PR_SHORT_READ]++; }
	sim_copy(buf, p->buf + p->rd, n);
	rx_guard_check(buf, len, n);
	/* receive-side framing, to know whether the reader is at a record boundary */
	for (size_t i = 0; i < n; i++) {
		if (rx->body_left) { size_t m = n - i < rx->body_left ? n - i : rx->body_left; rx->body_left -= m; i += m - 1; continue; }
		rx->hdr[rx->hdr_got++] = p->buf[p->rd + i];
		if (rx->hdr_got == 5) {
			rx->body_left = ((size_t)rx->hdr[3] << 8) | rx->hdr[4];
			rx->hdr_got = 0;
			if (rx->body_left == 16384 + 0) g_sim.probes[PR_REC_MAX]++;
		}
	}
	p->rd += n;
	p->n_recv++;
	sim_yield(EV_RECV, (int64_t)n, c->id * 2 + dir);
	return (ssize_t)n;
}

void net_close_end(Conn *c, int side)
{
	int out = side == 0 ? DIR_C2S : DIR_S2C;
	int in = side == 0 ? DIR_S2C : DIR_C2S;
	c->pipe[out].closed_wr = 1;
	c->pipe[in].closed_rd = 1;
}

void net_close_all(void)
{
	for (int i = 0; i < g_nconns; i++) {
		net_close_end(&g_conns[i], 0);
		net_close_end(&g_conns[i], 1);
	}
}
