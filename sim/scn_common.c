/* Building blocks shared by the connection scenarios. */
#define _GNU_SOURCE
#include "gmsim.h"
#include <stdarg.h>
#include <time.h>

void rr_violation(RunResult *r, const char *vclass, const char *fmt, ...)
{
	if (r->violated) return;          /* first violation wins */
	r->violated = 1;
	snprintf(r->vclass, sizeof(r->vclass), "%s", vclass);
	va_list ap;
	va_start(ap, fmt);
	vsnprintf(r->detail, sizeof(r->detail), fmt, ap);
	va_end(ap);
	for (char *p = r->detail; *p; p++) if (*p == '\n') *p = ' ';
}

static int64_t pick(Rng *g, const int64_t *v, int n) { return v[rng_below(g, (uint32_t)n)]; }

void gen_common(Plan *p, Rng *g, int tier)
{
	(void)tier;
	p->proto = rng_below(g, 3);
	p->mutual = rng_below(g, 2);
	static const int64_t depths[] = { 1, 1, 2, 2, 2, 3 };
	p->depth = pick(g, depths, 6);
	if (p->depth == 3 && p->proto == P_TLCP) p->depth = 2;   /* 4 certs exceed TLS_MAX_CERTIFICATES_SIZE */
	p->sched_seed = (int64_t)(rng_u64(g) >> 1);
	p->net_seed = (int64_t)(rng_u64(g) >> 1);
	p->ent_c = (int64_t)(rng_u64(g) >> 1);
	p->ent_s = (int64_t)(rng_u64(g) >> 1);
	p->plan_seed = (int64_t)(rng_u64(g) >> 1);
	static const int64_t stay[] = { 0, 1, 1, 9, 99 };
	static const int64_t stayd[] = { 1, 2, 2, 10, 100 };
	int si = (int)rng_below(g, 5);
	p->stay_num = stay[si]; p->stay_den = stayd[si];
	static const int64_t styles[] = { 0, 0, 1, 2, 2, 3, 4 };
	p->seg_style = pick(g, styles, 7);
	static const int64_t chunks[] = { 1, 2, 7, 64, 500, 1400, 5000 };
	p->max_chunk = pick(g, chunks, 7);
	static const int64_t lats[] = { 0, 0, 1000, 100000, 2000000, 50000000 };
	p->max_lat_ns = pick(g, lats, 6);
	static const int64_t sw[] = { 0, 0, 0, 4, 12 };
	p->short_write = pick(g, sw, 5);
	p->eagain = rng_chance(g, 1, 4);
	static const int64_t caps[] = { 0, 0, 0, 0, 1, 7, 100, 4096, 20000 };
	p->capacity = pick(g, caps, 9);
	p->skew_c = (int64_t)rng_below(g, 201) - 100;
	p->skew_s = (int64_t)rng_below(g, 201) - 100;
	p->closer = rng_below(g, 2);
	p->tz = rng_chance(g, 1, 2) ? 0 : (int64_t)rng_below(g, 5);
	p->extra_roots = rng_chance(g, 1, 4) ? 1 + (int64_t)rng_below(g, 3) : 0;     /* trust bundle of 1..4 anchors */
	p->seg_late = rng_chance(g, 1, 4);     /* defects of the data phase are otherwise masked by the handshake failing first */
}

static int64_t draw_size(Rng *g, int64_t max_bytes)
{
	static const int64_t edges[] = { 1, 15, 16, 17, 255, 256, 16383, 16384, 16385, 18415, 18416, 32768, 50000 };
	int64_t n;
	uint32_t c = rng_below(g, 100);
	if (c < 30) n = pick(g, edges, 13);
	else if (c < 70) n = 1 + rng_below(g, 2000);
	else if (c < 90) n = 1 + rng_below(g, 20000);
	else n = 1 + rng_below(g, 50000);
	if (n > max_bytes) n = 1 + n % max_bytes;
	return n;
}

/* keep the number of simulated system calls per run bounded: tiny buffers and
 * one-byte segments are combined with small messages only */
static int64_t byte_budget(const Plan *p, int64_t max_bytes)
{
	int64_t b = max_bytes;
	if (p->capacity && p->capacity < 100 && b > 600) b = 600;
	else if (p->capacity && p->capacity < 4096 && b > 6000) b = 6000;
	if ((p->seg_style == 1 || (p->seg_style == 2 && p->max_chunk <= 7)) && b > 3000) b = 3000;
	return b;
}

void gen_rounds(Plan *p, Rng *g, int tier, int max_rounds, int64_t max_bytes)
{
	(void)tier;
	max_bytes = byte_budget(p, max_bytes);
	p->nrounds = 1 + (int)rng_below(g, (uint32_t)max_rounds);
	for (int i = 0; i < p->nrounds; i++) {
		Round *r = &p->rounds[i];
		memset(r, 0, sizeof(*r));
		r->mode = (int)rng_below(g, 3);
		if (r->mode == RM_DUPLEX && p->capacity) r->mode = (int)rng_below(g, 2);
		for (int d = 0; d < 2; d++) {
			int active = r->mode == RM_DUPLEX || r->mode == d;
			if (!active) continue;
			int64_t n = draw_size(g, max_bytes);
			r->n[d] = n;
			static const int64_t wc[] = { 0, 0, 0, 1, 17, 51, 100, 115, 1000, 16384, 16385, 20000 };   /* 51, 115: sequence number + header + payload fill whole hash blocks */
			int64_t w = pick(g, wc, 12);
			if (w && n / w > 48) w = n / 48 + 1;
			if (rng_chance(g, 1, 12) && max_bytes >= 300) {
				/* a long-lived direction: 258..297 small records, so that sequence numbers carry out of their lowest byte */
				w = 1 + (int64_t)rng_below(g, 40);
				if (w > max_bytes / 300) w = max_bytes / 300;
				n = w * (258 + (int64_t)rng_below(g, 40));
				r->n[d] = n;
			}
			r->wchunk[d] = w;
			static const int64_t rb[] = { 1, 2, 16, 100, 1024, 4096, 16384, 20000, 20000 };
			int64_t b = pick(g, rb, 9);
			if (n / b > 150) b = n / 150 + 1;
			r->rbuf_max[d] = b;
		}
		/* TLS 1.3 only (tls_send of TLCP/TLS 1.2 documents "drain before send"): the reader writes
		 * acknowledgements back while a record may still be partly buffered */
		if (p->proto == P_TLS13 && !p->capacity && r->mode != RM_DUPLEX && rng_chance(g, 1, 3)) {
			int d = r->mode;
			r->mode = d == DIR_C2S ? RM_C2S_ACKED : RM_S2C_ACKED;
			r->ack_every = (int64_t[]){ 1, 7, 100, 1000, 5000 }[rng_below(g, 5)];
			if (r->n[d] / r->ack_every > 40) r->ack_every = r->n[d] / 40 + 1;
			r->ack_size = (int64_t[]){ 1, 16, 300, 2000 }[rng_below(g, 4)];
			r->rbuf_max[1 - d] = 4096;
			r->n[1 - d] = 0;
		}
	}
}

void sim_apply_plan(const Plan *p)
{
	/* the process environment a deployment may have: local time zone (POSIX TZ strings, no tzdata needed) */
	static const char *tzs[] = { NULL, "UTC", "CST-8", "PST8", "<+0530>-5:30" };
	const char *tz = tzs[(p->tz >= 0 && p->tz < 5) ? p->tz : 0];
	if (tz) setenv("TZ", tz, 1); else unsetenv("TZ");
	tzset();
	sim_reset((uint64_t)p->sched_seed);
	g_sim.stay_num = (uint32_t)p->stay_num;
	g_sim.stay_den = (uint32_t)(p->stay_den ? p->stay_den : 1);
	rng_seed(&g_sim.nodes[0].ent, (uint64_t)p->ent_c, 0xc11e);
	rng_seed(&g_sim.nodes[1].ent, (uint64_t)p->ent_s, 0x5e12);
	g_sim.nodes[0].skew_s = p->skew_c;
	g_sim.nodes[1].skew_s = p->skew_s;
	if (p->jump_node >= 0 && p->jump_node < SIM_MAX_NODES) {
		Node *n = &g_sim.nodes[p->jump_node];
		n->jumps[0].at_ns = p->jump_at_ns;
		n->jumps[0].delta_s = p->jump_delta_s;
		n->njumps = 1;
	}
	for (int i = 0; i < SIM_MAX_NODES; i++)
		if (p->afail_at >= 0 && (p->afail_node == i || p->afail_node == -2)) {
			g_sim.nodes[i].afail_at = p->afail_at;
			g_sim.nodes[i].afail_rest = (int)p->afail_rest;
		}
	if (p->efail_node >= 0 && p->efail_node < SIM_MAX_NODES) {
		Node *n = &g_sim.nodes[p->efail_node];
		n->efail_at = p->efail_at;
		n->efail_rest = (int)p->efail_rest;
		n->efail_errno = (int)p->efail_errno;
		n->eburst_at = p->eburst_at;
		n->eburst_k = (int)p->eburst_k;
		n->eburst_val = (int)p->eburst_val;
	}
}

int (*g_quiesce_hook)(void);
extern int g_preempt_on;
extern int64_t g_preempt_mean;

int quiesce_handler(void)
{
	if (g_quiesce_hook && g_quiesce_hook()) return 1;
	if (!g_sim.quiesced) {
		g_sim.quiesced = 1;
		g_sim.probes[PR_QUIESCED]++;
		net_close_all();
		return 1;
	}
	return 0;
}

void conn_run(const Plan *p, const CredSet *cs, HonestOut *out,
	void (*on_record)(Conn *, int, int, const uint8_t *, size_t),
	void (*pre_run)(Endpoint *, Endpoint *))
{
	memset(out, 0, sizeof(*out));
	arena_begin();
	sim_apply_plan(p);
	net_reset();
	mon_reset();
	cap_reset();

	NetKnobs k;
	memset(&k, 0, sizeof(k));
	k.seg_style = (int)p->seg_style; k.max_chunk = (int)p->max_chunk; k.max_lat_ns = p->max_lat_ns; k.seg_late = (int)p->seg_late;
	k.short_write = (int)p->short_write; k.eagain = (int)p->eagain; k.capacity = (size_t)p->capacity;
	Conn *c = net_conn_new(&k, (uint64_t)p->net_seed);
	c->interpose = p->interpose || on_record != NULL;
	c->on_record = on_record;
	c->check_tx = 1;

	Endpoint *cl = &g_ep[0], *sv = &g_ep[1];
	if (ep_setup(cl, 0, c, p, cs, 0) != 1 || ep_setup(sv, 1, c, p, cs, 1) != 1) {
		/* the library refused this configuration (e.g. a trust bundle larger than
		 * TLS_MAX_CERTIFICATES_SIZE): nothing ran; callers see hs_ret = -98 */
		out->hs_ret[0] = out->hs_ret[1] = -98;
		out->setup_refused = 1;
		ep_free(cl); ep_free(sv);
		arena_end();
		return;
	}
	if (pre_run) pre_run(cl, sv);

	g_sim.next_event = net_next_event;
	g_sim.on_quiesce = quiesce_handler;
#ifdef GMSIM_TSAN
	g_sim.on_switch = NULL;      /* the monitors read both endpoints' TLS_CONNECT from whichever thread yields: not under TSan */
#else
	g_sim.on_switch = mon_on_switch;
#endif
	cl->task = sim_spawn("client", 0, ep_task, cl);
	sv->task = sim_spawn("server", 1, ep_task, sv);
	/* in the -finstrument-functions builds the two endpoint tasks are also preempted
	 * inside library code (function entries), like two caller threads would be */
	g_preempt_mean = p->preempt_mean > 0 ? p->preempt_mean : 50;
	preempt_reset(0);
	g_preempt_on = p->preempt_mean > 0;
	sim_run();
	g_preempt_on = 0;
#ifndef GMSIM_TSAN
	mon_on_switch(-1);
#endif

	Endpoint *e[2] = { cl, sv };
	for (int s = 0; s < 2; s++) {
		out->hs_ret[s] = e[s]->hs_returned ? e[s]->hs_ret : -99;
		out->keys[s] = e[s]->keys;
		out->io_err[s] = e[s]->io_err;
		memcpy(out->io_err_what[s], e[s]->io_err_what, sizeof(out->io_err_what[s]));
		out->data_after_fail[s] = e[s]->data_after_fail;
		out->recv_errs[s] = e[s]->recv_errs;
		out->odd_sent[s] = e[s]->odd_sent;
		out->got_after_err[s] = e[s]->got_after_err;
		out->hs_done_step[s] = e[s]->hs_done_step;
		out->rd_at_done[s] = e[s]->rd_at_done;
		out->finished[s] = e[s]->finished;
		out->draws_at_done[s] = e[s]->draws_at_done; out->draws_at_data_end[s] = e[s]->draws_at_data_end;
		int d = s == 0 ? DIR_C2S : DIR_S2C;
		out->nrecmap[d] = e[s]->nrecmap;
		memcpy(out->recmap[d], e[s]->recmap, sizeof(out->recmap[d]));
	}
	out->step_capped = g_sim.step_capped;
	out->quiesced = g_sim.quiesced;
	out->both_done = out->hs_ret[0] == 1 && out->hs_ret[1] == 1;
	out->wrote[DIR_C2S] = cl->wrote[DIR_C2S]; out->wrote[DIR_S2C] = sv->wrote[DIR_S2C];
	out->got[DIR_C2S] = sv->got[DIR_C2S]; out->got[DIR_S2C] = cl->got[DIR_S2C];
	Endpoint *reader = p->closer == 0 ? sv : cl;
	out->eof_ok = reader->eof_seen && reader->eof_ret == 0;
	for (int d = 0; d < 2; d++) {
		/* net effect of all faults on what the receiver saw while handshaking */
		Pipe *pp = &c->pipe[d];
		size_t n = out->rd_at_done[d == DIR_C2S ? 1 : 0];
		out->hs_stream_tampered[d] = n > pp->sent_len || n > pp->wr || (n && memcmp(pp->buf, pp->sent, n) != 0);
	}
	for (int d = 0; d < 2; d++) {
		Pipe *pp = &c->pipe[d];
		out->nrecs[d] = pp->nrecs < MAX_REC ? pp->nrecs : MAX_REC;
		memcpy(out->recs[d], pp->recs, sizeof(RecInfo) * (size_t)out->nrecs[d]);
		out->sent_len[d] = pp->sent_len;
	}
	if (g_leak_mode) { leak_deep_collect(p); leak_scan_now(0); }
	ep_free(cl);
	ep_free(sv);
	arena_end();
}
