#!/usr/bin/env python3
"""Driver for the gmsim deterministic-simulation checks.

  python3 check.py --setup                     build every variant (offline)
  python3 check.py C08 --tier quick|thorough   run the check for one property
  python3 check.py --replay <file>             re-execute a replay file

Exit 0: property held on everything explored (KNOWN-FINDING lines possible).
Exit 1: `VIOLATION property=<id> replay=<path>` printed.
Exit 2: harness fault (build failure, non-reproducible result) — never a violation.
"""
import os, sys, re, json, time, subprocess, threading, queue, tempfile, shutil, glob, signal

VERIF = os.path.dirname(os.path.abspath(__file__))
sys.path.insert(0, VERIF)
import build as B

NWORKERS = int(os.environ.get("GMSIM_WORKERS", "16"))
REPLAYS = os.path.join(VERIF, "replays")
EVIDENCE = os.path.join(VERIF, "evidence")
ASANLOG = os.path.join(VERIF, "build", "sanlogs")

# ---------------------------------------------------------------------------
# property -> parts.  A part is (scenario, variant, workers, chunk, extra args)
PROPS = {
    "C08": dict(level="exploration", design="4.1",
                parts=[("honest", "plain", 9, 50, []), ("honest", "asan", 3, 12, []), ("honest", "asan-if", 2, 6, []), ("honest", "tsan-if", 2, 6, [])],
                quick_s=55, thorough_s=900, quick_max=40000, thorough_max=2000000,
                rule="one run = one simulated client/server connection (handshake, 1..12 data rounds, orderly close) "
                     "generated from H(VERIF_SEED, scenario, index); non-trivial = at least 3 context switches between "
                     "the endpoint tasks; distinct = distinct interleaving ids (hash of the sequence of (step, from-task, to-task) switches)"),
    "C10": dict(level="fault_enumeration", design="4.3", memclass="foreign", cell_keys=["proto", "mutual", "kind", "dir"], space="hs_flip_bytes",
                parts=[("mitm-hs", "plain", 12, 120, []), ("mitm-hs", "asan", 4, 24, [])],
                quick_s=55, thorough_s=900, quick_max=200000, thorough_max=4000000,
                expect_probes=["fault_fired"],
                rule="one run = one honest client/server connection behind a record-aware interposer executing an explicit fault plan "
                     "(single fault; thorough: 10% two-fault plans) drawn from the record layout of the run's fault-free twin: bit flips over "
                     "the payload of every handshake record, drop, duplicate, swap-with-next, truncate, extend, inject (alert/CCS/garbage), replay, "
                     "peer crash at a byte offset; non-trivial = the fault really fired on a record that passed the interposer and the twin passed the "
                     "honest oracle; distinct = distinct (config, fault kind, direction, record, offset, bit, args) ids"),
    "C11": dict(level="fault_enumeration", design="4.4", memclass="foreign", cell_keys=["proto", "kind", "region"],
                parts=[("mitm-data", "plain", 12, 120, []), ("mitm-data", "asan", 4, 24, [])],
                quick_s=55, thorough_s=900, quick_max=200000, thorough_max=4000000,
                expect_probes=["fault_fired"],
                rule="one run = handshake plus 1..5 data rounds behind the interposer; the fault targets an application-data record of the live "
                     "connection: bit flip (stratified over header, IV, body, MAC/padding/tag region, last byte), truncate/extend by 1..32 bytes with and "
                     "without header fix-up, duplicate, replay of an earlier record, swap, drop, forged record; non-trivial = fault fired and twin passed; "
                     "distinct = distinct (config, kind, direction, record, offset, bit, args) ids"),
    "C09": dict(level="fault_enumeration", design="4.2", memclass="foreign", cell_keys=["proto", "defect", "role"],
                parts=[("auth", "plain", 12, 50, []), ("auth", "asan", 4, 12, [])],
                quick_s=55, thorough_s=900, quick_max=100000, thorough_max=2000000,
                rule="one run = a defect-free twin connection (must pass the honest oracle) followed by the same connection with exactly one "
                     "credential/message defect on the proving side: foreign root (same/other name), expired / not-yet-valid leaf or intermediate "
                     "(boundary +-1 s .. 400 d), verifier clock ahead/behind/jumping, issuer with cA=FALSE / without basicConstraints / without "
                     "keyCertSign / pathLen exceeded / an end-entity certificate as issuer, one flipped bit in leaf or intermediate, certificate held "
                     "with another private key (signing key; TLCP encryption key), TLCP encryption certificate from a foreign issuer, client without "
                     "certificate, client Certificate / CertificateVerify removed or emptied in flight; x 3 protocols x verifying role x chain depth; "
                     "non-trivial = the defect was really in effect; distinct = distinct (protocol, defect, role, depth, mutual, defect argument) ids"),
    "C18": dict(level="fault_enumeration", design="4.6", cell_keys=["mode", "op", "proto", "node"],
                parts=[("entropy", "plain", 12, 80, []), ("entropy", "asan", 4, 20, [])],
                quick_s=55, thorough_s=900, quick_max=200000, thorough_max=4000000,
                rule="one run = either a complete handshake (+ data) in which the entropy source of one endpoint fails at its i-th draw "
                     "(this draw only, or this and all later ones) or returns up to 3 degenerate all-0x00/0xFF draws, or a single randomised API "
                     "operation (27 operations: SM2 keygen/sign/encrypt/ECDH incl. reused contexts, PKCS#8, X.509 cert/req/CRL signing, CMS "
                     "sign/envelop, TLS record IV, Hello random, pre-master secret, ServerKeyExchange signature, SM9 keygen/sign/encrypt/exchange steps 1A and 1B, PKCS#8 PEM) "
                     "with every draw index failing in turn, stream pairs (same stream twice, two different streams) and histories of repeated "
                     "operations on one stream; the fault index is drawn from the draw count of the fault-free twin; non-trivial = the injected entropy "
                     "fault really fired (or the pair/history was executed); distinct = distinct (operation or protocol/role, mode, draw index, args) ids"),
    "C19": dict(level="exploration", design="4.7", leak=True, memclass="foreign",
                parts=[("honest", "plain", 4, 50, ["--leak"]), ("mitm-hs", "plain", 3, 120, ["--leak"]), ("mitm-data", "plain", 2, 120, ["--leak"]),
                       ("auth", "plain", 2, 50, ["--leak"]), ("entropy", "plain", 2, 80, ["--leak"]), ("ops", "plain", 2, 200, ["--leak"]),
                       ("abrupt", "plain", 1, 50, ["--leak"]), ("byz", "plain", 2, 64, ["--leak"])],
                quick_s=55, thorough_s=900, quick_max=200000, thorough_max=4000000,
                rule="one run = one run of the honest / mitm-hs / mitm-data / auth / entropy / byz scenarios (success and the many failure paths that "
                     "faults, malformed peer messages and failing allocations open) or one sequence of 3..14 single-node secret-handling operations (key generation, private-key DER/PEM/PKCS#8 "
                     "import with right and wrong password or damaged input, sign, decrypt with right/wrong key, ECDH, CMS open, record "
                     "unprotection, TLS context setup from PEM files with right/wrong passwords and damaged key files; plus connections whose closing side shuts "
                     "down while the peer still has data in flight, "
                     "unprotection), with file descriptors 1 and 2 redirected to memfds; after the run the captured bytes are searched for every "
                     ">=8-byte window of every secret the harness knows (long-term private keys, passwords, master secret, MAC and traffic keys, "
                     "TLS 1.3 traffic keys recovered from the round keys and IVs, TLCP pre-master secret, validated ephemeral private scalars, "
                     "ECDHE shared secret, received plaintext), raw and as hex with separators removed; non-trivial = the run executed library code "
                     "that handles secrets (every run does); distinct = distinct interleaving / fault / operation-sequence ids"),
    "C06": dict(level="exploration", design="4.5", memclass="only", cell_keys=["proto", "victim", "rec"],
                parts=[("byz", "asan", 8, 32, []), ("mitm-hs", "asan", 3, 24, []), ("mitm-data", "asan", 2, 24, []), ("auth", "asan", 1, 12, []), ("http", "asan", 1, 200, []), ("byz", "msan", 2, 16, []), ("honest", "msan", 1, 6, []), ("mitm-data", "msan", 1, 12, []), ("auth", "msan", 1, 12, []),
                       ("mitm-hs", "msan", 1, 24, [], "thorough"), ("entropy", "msan", 1, 20, [], "thorough")],
                quick_s=55, thorough_s=1200, quick_max=200000, thorough_max=4000000,
                rule="scope: every byte stream a TLS/TLCP/TLS 1.3 client or server receives from its peer. One run = a real victim endpoint "
                     "and its real peer with the interposer acting as byzantine peer: 1..3 handshake records of one direction rewritten by seeded "
                     "structure-aware mutators (vector length sweep, truncation/extension, session id 0..255, ClientHello without extensions, odd "
                     "cipher list, EC point variants, certificate list re-framed with one certificate's DER tree mutated: lengths "
                     "0/+-1/huge/indefinite/non-minimal, duplicated/dropped/retagged TLVs, OIDs of 1..45 arcs, oversized lists of real certificates); "
                     "TLS 1.3 protected messages are unprotected with the sender's keys, rewritten and re-protected; plus the mitm-hs, mitm-data and "
                     "auth scenarios (a share of byz also under MemorySanitizer: use of uninitialised memory), and http_get against a simulated server returning generated responses (status/header/Content-Length variants, body shorter or longer than announced, early EOF, arbitrary segmentation, caller buffers of 0..70000 bytes with guard zones). All under ASan + UBSan(bounds, pointer-overflow, null, object-size); oracle = no sanitizer report, no abort, no "
                     "hang (CPU watchdog, runaway-output trip), TLS_CONNECT state integrity, lengths within capacity. non-trivial = a mutation/fault "
                     "really reached the victim; distinct = distinct (protocol, victim, record, mutation seed) ids"),
    "C20": dict(level="exploration", design="4.8",
                parts=[("threads", "asan-if", 8, 2, []), ("threads", "tsan-if", 8, 2, [])],
                quick_s=55, thorough_s=900, quick_max=100000, thorough_max=2000000,
                rule="one run = 2..16 tasks (quick: 2..6), each with private objects, a private entropy stream and clock, running a script of "
                     "2..9 operations drawn from SM3/HMAC/digest, SM4 CBC/CTR/GCM, ZUC, SM2 keygen/sign/verify/encrypt/decrypt/ECDH, DER key "
                     "round trips, X.509 issue+verify, CMS sign/verify, TLS CBC and GCM record protection, PBKDF2, SM9 sign/verify, and 0..2 complete "
                     "handshake+data connections (two tasks each); library code is preempted at function entries (-finstrument-functions) by the seeded "
                     "scheduler, countdown mean 8..3000 calls or PCT with 1..3 priority change points; each run is executed twice, without and with "
                     "preemption, and every task's result log must be identical (asan-if build); in the tsan-if build tasks are real threads handed a "
                     "futex baton ThreadSanitizer cannot see, so conflicting accesses to library state are reported although serialised; "
                     "non-trivial = at least one preemption inside library code; distinct = distinct interleaving ids"),
}

ALL_VARIANTS = ["plain", "asan", "asan-if", "tsan-if", "msan"]
MEMCLASSES = ("hang:", "memerr:", "crash:", "state_corrupt", "no_termination")

KV = re.compile(r'(\w+)=("([^"]*)"|\S+)')


def parse_line(line):
    d = {}
    for m in KV.finditer(line):
        d[m.group(1)] = m.group(3) if m.group(3) is not None else m.group(2)
    return d


def san_env(tag):
    os.makedirs(ASANLOG, exist_ok=True)
    env = dict(os.environ)
    lp = os.path.join(ASANLOG, tag)
    env["ASAN_OPTIONS"] = f"log_path={lp}:exitcode=77:detect_leaks=0:abort_on_error=0"
    env["UBSAN_OPTIONS"] = f"log_path={lp}:halt_on_error=1:exitcode=77:print_stacktrace=1"
    env["TSAN_OPTIONS"] = f"log_path={lp}:exitcode=66:halt_on_error=1:report_signal_unsafe=0:suppress_equal_stacks=0:suppress_equal_addresses=0:history_size=4"
    env["MSAN_OPTIONS"] = f"log_path={lp}:exitcode=77"
    env["GMSIM_STDERR_CAP"] = lp + ".stderr"
    return env, lp


def take_stderr_cap(lp, pid):
    path = f"{lp}.stderr.{pid}"
    try:
        with open(path, "rb") as f:
            f.seek(0, 2)
            n = f.tell()
            f.seek(max(0, n - 6000))
            txt = f.read().decode(errors="replace")
        os.unlink(path)
        return txt
    except OSError:
        return ""


def classify_sanlog(lp, pid, captured=""):
    """-> (class, excerpt) from a sanitizer log written by process pid; `captured` is the tail of the
    worker's own stderr that the harness hands over when a sanitizer kills it (UBSan writes there)"""
    path = f"{lp}.{pid}"
    txt = open(path, errors="replace").read() if os.path.exists(path) else ""
    if captured and not re.search(r"Sanitizer: |runtime error: ", txt):
        txt = txt + "\n" + captured
    if not txt:
        return None, ""
    kind = "unknown"
    if "WARNING: ThreadSanitizer: data race" in txt:
        # the library function that made the first of the two accesses (frames of libc and of the harness are skipped)
        first = txt[txt.find("#0 "):].split("\n\n", 1)[0] if "#0 " in txt else ""
        fm = re.search(r"#\d+ (\w+) (/\S*/src/[^\s:]+)", "\n".join(l for l in first.splitlines() if "/verif/sim/" not in l))
        loc = re.search(r"Location is global '([^']+)'", txt)
        func = fm.group(1) if fm else "?"
        try:
            os.unlink(path)
        except OSError:
            pass
        return f"race:{loc.group(1) if loc else 'heap-or-stack'}@{func}", txt[:3000]
    m = re.search(r"(?:ERROR|WARNING): (?:Address|Memory|Thread|Leak)Sanitizer: ([\w-]+)", txt)
    if m:
        kind = m.group(1)
    else:
        m = re.search(r"runtime error: ([^\n]+)", txt)
        if m:
            kind = "ubsan-" + re.sub(r"[^a-z]+", "-", m.group(1).lower())[:40].strip("-")
        elif "WARNING: ThreadSanitizer: data race" in txt:
            kind = "data-race"
    func = "?"
    for fm in re.finditer(r"#\d+ 0x[0-9a-f]+ in (\w+) (/[^\s:]+)", txt):
        if "/repo/src/" in fm.group(2) or "/src/" in fm.group(2) and "/verif/" not in fm.group(2):
            func = fm.group(1)
            break
    if "AddressSanitizer" in txt or "runtime error" in txt:
        # the faulting access itself: if no library frame is on that stack, the harness is at fault
        first = txt[txt.find("#0 "):].split("\n\n", 1)[0] if "#0 " in txt else ""
        frames = re.findall(r"#\d+ 0x[0-9a-f]+ in (\w+) (/[^\s:]+)", first)
        if frames and not any(("/src/" in f and "/verif/" not in f) for _, f in frames) and any("/verif/sim/" in f for _, f in frames):
            try:
                os.unlink(path)
            except OSError:
                pass
            return f"harness:{kind}@{frames[0][0]}", txt[:3000]
    try:
        os.unlink(path)
    except OSError:
        pass
    return f"memerr:{kind}@{func}", txt[:3000]


class Worker(threading.Thread):
    """Runs chunks of one part until the deadline; restarts after crashes."""

    def __init__(self, wid, part, prop, tier, seed, chunkq, deadline, results, extra):
        super().__init__(daemon=True)
        self.wid, self.part, self.prop, self.tier, self.seed = wid, part, prop, tier, seed
        self.chunkq, self.deadline, self.results, self.extra = chunkq, deadline, results, extra

    def run(self):
        scn, variant, _, chunk, args = self.part[:5]
        exe = os.path.join(VERIF, "build", variant, "gmsim")
        while time.time() < self.deadline:
            try:
                start = self.chunkq.get_nowait()
            except queue.Empty:
                return
            frm, cnt = start, chunk
            while cnt > 0:
                done = self.run_chunk(exe, scn, variant, frm, cnt, args)
                frm += done
                cnt -= done

    def run_chunk(self, exe, scn, variant, frm, cnt, args):
        env, lp = san_env(f"w{self.wid}")
        cmd = [exe, "run", scn, "--seed", str(self.seed), "--from", str(frm), "--count", str(cnt),
               "--tier", "1" if self.tier == "thorough" else "0", "--recheck", "50"] + args
        p = subprocess.Popen(cmd, stdout=subprocess.PIPE, stderr=subprocess.DEVNULL, text=True, env=env, cwd=VERIF)
        out, _ = p.communicate()
        rc = p.returncode
        cap = take_stderr_cap(lp, p.pid)
        runs, last_begin, plan, in_plan, hang = 0, None, None, False, None
        pending_viol = None
        for line in out.splitlines():
            if in_plan:
                if line == "PLAN-END":
                    in_plan = False
                    if pending_viol is not None:
                        pending_viol["plan"] = "\n".join(plan) + "\n"
                        pending_viol = None
                else:
                    plan.append(line)
                continue
            if line.startswith("BEGIN "):
                last_begin = parse_line(line)
            elif line.startswith("RUN "):
                d = parse_line(line)
                d["variant"] = variant
                d["scn"] = scn
                runs += 1
                last_begin = None
                self.results.append(("run", d))
                if d.get("ok") == "0" or "leak" in d:
                    pending_viol = d
            elif line == "PLAN-BEGIN":
                in_plan, plan = True, []
            elif line.startswith("NONDET "):
                self.results.append(("nondet", parse_line(line)))
            elif line.startswith("HANG "):
                hang = parse_line(line)
            elif line.startswith("HARNESS-ERROR"):
                self.results.append(("harness", {"msg": line, "variant": variant, "scn": scn}))
        if rc == 0:
            try:
                os.unlink(f"{lp}.{p.pid}")       # ASan's start-up warning about swapcontext, nothing else
            except OSError:
                pass
            return cnt
        # the process died inside a run
        if last_begin is None:
            self.results.append(("harness", {"msg": f"worker exit {rc} outside a run: {out[-300:]}", "variant": variant, "scn": scn}))
            return cnt
        idx = int(last_begin["idx"])
        cls, excerpt = None, ""
        if hang is not None:
            cls = "hang:" + hang.get("kind", "cpu")
        elif rc in (77, 66):
            cls, excerpt = classify_sanlog(lp, p.pid, cap)
            cls = cls or "memerr:unknown@?"
        elif rc < 0:
            cls = "crash:" + signal.Signals(-rc).name
        else:
            self.results.append(("harness", {"msg": f"worker exit {rc} in run {idx}: {out[-300:]}", "variant": variant, "scn": scn}))
            return idx - frm + 1
        self.results.append(("crash", {"idx": str(idx), "seed": last_begin["seed"], "class": cls, "variant": variant,
                                       "scn": scn, "detail": excerpt[:600], "args": args}))
        return idx - frm + 1


def gen_plan(variant, scn, seed, idx, tier):
    exe = os.path.join(VERIF, "build", variant, "gmsim")
    cmd = [exe, "gen", scn, "--seed", str(seed), "--index", str(idx), "--tier", "1" if tier == "thorough" else "0"]
    r = subprocess.run(cmd, stdout=subprocess.PIPE, stderr=subprocess.DEVNULL, text=True, cwd=VERIF)
    if r.returncode != 0 or "end" not in r.stdout:
        # generating the plan executes the fault-free twin; if that itself crashes, fall back to the
        # fault-free plan, whose replay runs (and crashes in) the twin
        env = dict(os.environ, GMSIM_GEN_NOTWIN="1")
        r = subprocess.run(cmd, stdout=subprocess.PIPE, stderr=subprocess.DEVNULL, text=True, cwd=VERIF, env=env)
    return r.stdout


def replay_once(variant, plan_text, leak=False, log=None, timeout=300):
    """-> dict(cls=<class or None>, fp=..., detail=...)"""
    exe = os.path.join(VERIF, "build", variant, "gmsim")
    fd, path = tempfile.mkstemp(prefix="gmsim_", suffix=".plan", dir=os.path.join(VERIF, "build"))
    os.write(fd, plan_text.encode())
    os.close(fd)
    env, lp = san_env("replay%d" % os.getpid())
    cmd = [exe, "replay", path] + (["--leak"] if leak else []) + (["--log", log] if log else [])
    try:
        p = subprocess.Popen(cmd, stdout=subprocess.PIPE, stderr=subprocess.DEVNULL, text=True, env=env, cwd=VERIF)
        try:
            out, _ = p.communicate(timeout=timeout)
        except subprocess.TimeoutExpired:
            p.kill()
            out, _ = p.communicate()
            take_stderr_cap(lp, p.pid)
            return dict(cls="hang:timeout", fp="", detail="replay timed out")
    finally:
        os.unlink(path)
    rc = p.returncode
    cap = take_stderr_cap(lp, p.pid)
    res = dict(cls=None, fp="", detail="", leak=None, leakdetail="")
    hang = None
    for line in out.splitlines():
        if line.startswith("RUN "):
            d = parse_line(line)
            res["fp"] = d.get("fp", "")
            if d.get("ok") == "0":
                res["cls"] = d.get("class")
                res["detail"] = d.get("detail", "")
            if "leak" in d:
                res["leak"] = d["leak"]
                res["leakdetail"] = d.get("leakdetail", "")
            return res
        if line.startswith("HANG "):
            hang = parse_line(line)
        if line.startswith("HARNESS-ERROR"):
            res["cls"] = "harness-error"
            res["detail"] = line
            return res
    if hang is not None:
        res["cls"] = "hang:" + hang.get("kind", "cpu")
    elif rc in (77, 66):
        res["cls"], res["detail"] = classify_sanlog(lp, p.pid, cap)
        res["cls"] = res["cls"] or "memerr:unknown@?"
    elif rc < 0:
        res["cls"] = "crash:" + signal.Signals(-rc).name
    else:
        res["cls"] = "harness-error"
        res["detail"] = f"exit {rc}: {out[-300:]}"
    return res


# --------------------------------------------------------------- shrinking
def plan_lines(text):
    return [l for l in text.splitlines() if l.strip() and not l.startswith("#")]


def plan_get(lines, key):
    for l in lines:
        if l.startswith(key + " "):
            return l.split()[1]
    return None


def plan_set(lines, key, val):
    return [f"{key} {val}" if l.startswith(key + " ") else l for l in lines]


def shrink(variant, plan_text, want, is_leak, budget_s=90, max_runs=160):
    """greedy shrinking that keeps the same violation class; returns (plan_text, reruns)"""
    lines = plan_lines(plan_text)
    runs = [0]
    t0 = time.time()

    def still(cand):
        if runs[0] >= max_runs or time.time() - t0 > budget_s:
            return False
        runs[0] += 1
        r = replay_once(variant, "\n".join(cand) + "\n", leak=is_leak)
        return (r["leak"] if is_leak else r["cls"]) == want

    # 1. drop faults, then rounds (last first)
    for kind in ("fault ", "round "):
        i = len(lines) - 1
        while i >= 0:
            if lines[i].startswith(kind):
                cand = lines[:i] + lines[i + 1:]
                if still(cand):
                    lines = cand
            i -= 1
    # 2. knob simplification
    simple = [("seg_style", "0"), ("max_lat_ns", "0"), ("short_write", "0"), ("eagain", "0"), ("capacity", "0"),
              ("skew_c", "0"), ("skew_s", "0"), ("jump_node", "-1"), ("tz", "0"), ("extra_roots", "0"), ("stay_num", "1"), ("stay_den", "1"),
              ("mutual", "0"), ("depth", "1"), ("interpose", "0"), ("cred_mode", "0"), ("eburst_at", "-1"),
              ("efail_rest", "0"), ("op_count", "1"), ("ntasks", "2"), ("pct_d", "0")]
    for k, v in simple:
        cur = plan_get(lines, k)
        if cur is not None and cur != v:
            cand = plan_set(lines, k, v)
            if still(cand):
                lines = cand
    # 3. shrink round sizes and chunking
    for i, l in enumerate(lines):
        if not l.startswith("round "):
            continue
        f = l.split()
        for col in (2, 3):
            n = int(f[col])
            while n > 1:
                n2 = n // 2
                g = list(f); g[col] = str(n2)
                cand = lines[:i] + [" ".join(g)] + lines[i + 1:]
                if still(cand):
                    f, n = g, n2
                    lines = cand
                else:
                    break
        for col, v in ((4, "0"), (5, "0"), (6, "20000"), (7, "20000")):
            if f[col] != v:
                g = list(f); g[col] = v
                cand = lines[:i] + [" ".join(g)] + lines[i + 1:]
                if still(cand):
                    f = g
                    lines = cand
    return "\n".join(lines) + "\n", runs[0]


# ---------------------------------------------------------- known findings
def load_known():
    path = os.path.join(VERIF, "known_findings.json")
    if not os.path.exists(path):
        return []
    return json.load(open(path)).get("findings", [])


def match_known(known, prop, cls):
    for k in known:
        if k["property"] == prop and k["key"] == cls:
            return k
    return None


# ------------------------------------------------------------------- check
def run_check(prop, tier, seed):
    cfg = PROPS[prop]
    t0 = time.time()
    budget = cfg["quick_s"] if tier == "quick" else cfg["thorough_s"]
    if os.environ.get("GMSIM_BUDGET_S"):
        budget = float(os.environ["GMSIM_BUDGET_S"])
    maxruns = cfg["quick_max"] if tier == "quick" else cfg["thorough_max"]
    deadline = time.time() + budget
    results = []
    workers = []
    wid = 0
    parts = [p for p in cfg["parts"] if len(p) < 6 or p[5] == tier]
    variants = sorted({p[1] for p in parts})
    for v in variants:
        B.build(v)
    tot_w = sum(p[2] for p in parts)
    for pi, part in enumerate(parts):
        scn, variant, nw, chunk, args = part[:5]
        nw = max(1, round(nw * NWORKERS / tot_w))
        share = maxruns * part[2] // tot_w
        q = queue.Queue()
        base = pi * 10_000_000
        for start in range(base, base + max(share, chunk), chunk):
            q.put(start)
        for _ in range(nw):
            w = Worker(wid, part, prop, tier, seed, q, deadline, results, None)
            wid += 1
            w.start()
            workers.append(w)
    for w in workers:
        w.join()
    explore_s = time.time() - t0

    runs = [d for k, d in results if k == "run"]
    crashes = [d for k, d in results if k == "crash"]
    nondet = [d for k, d in results if k == "nondet"]
    harness = [d for k, d in results if k == "harness"]
    is_leak_prop = cfg.get("leak", False)

    for c in crashes:
        if c["class"].startswith("harness:"):
            harness.append({"msg": f"sanitizer error inside the harness ({c['class']}) in {c['scn']}/{c['variant']} run {c['idx']}: {c['detail'][:300]}"})
    if not runs and not crashes and not harness:
        harness.append({"msg": "no simulated run completed"})
    for part in parts:
        if not any(d["scn"] == part[0] and d["variant"] == part[1] for d in runs) and not harness:
            if not any(c["scn"] == part[0] and c["variant"] == part[1] for c in crashes):
                harness.append({"msg": f"part {part[0]}/{part[1]} completed no run"})
    if harness:
        for h in harness[:5]:
            print("HARNESS-ERROR", h["msg"][:500])
        write_evidence(prop, tier, seed, cfg, runs, [], [], explore_s, time.time() - t0, note="harness error")
        return 2
    # A run that does not re-execute identically inside a worker is normally a harness
    # fault (exit 2).  It can also be caused by the library keeping hidden state across
    # runs; then the batch usually contains violations as well.  Those go through the gate
    # (two fresh-process replays must agree) and, if confirmed, are reported in preference.
    nondet_pending = bool(nondet)

    # collect violations: one representative per class
    byclass = {}
    for d in runs:
        if is_leak_prop:
            if "leak" in d:
                byclass.setdefault(d["leak"], []).append(d)
        elif d.get("ok") == "0":
            byclass.setdefault(d["class"], []).append(d)
    for c in crashes:
        c["plan"] = gen_plan(c["variant"], c["scn"], seed, int(c["idx"]), tier)
        if c["class"].startswith("crash:") and c["variant"] == "plain" and len(byclass) < 12:
            # a crash of the uninstrumented build corrupts memory in run-dependent ways;
            # let the ASan build name the defect deterministically
            B.build("asan")
            ra = replay_once("asan", c["plan"], leak=False)
            if ra["cls"] and ra["cls"].startswith("memerr:"):
                c["class"], c["variant"], c["detail"] = ra["cls"], "asan", ra["detail"][:600]
        byclass.setdefault(c["class"], []).append(c)

    # Memory errors, hangs and state corruption provoked by tampered or malicious
    # traffic are what C06 states; in the fault-injecting checks of other
    # properties they are recorded but not reported as that property's violation
    # (the C06 check runs the same scenarios and reports them).
    foreign_events = []
    mode = cfg.get("memclass", "own")
    for cls in list(byclass):
        is_mem = cls.startswith(MEMCLASSES)
        if (mode == "foreign" and is_mem) or (mode == "only" and not is_mem):
            reps = byclass.pop(cls)
            foreign_events.append(dict(key=cls, count=len(reps), belongs_to="C06" if is_mem else reps[0].get("scn", "?"),
                                       index=reps[0].get("idx"), variant=reps[0].get("variant"), scenario=reps[0].get("scn")))
            print(f"NOTE: {len(reps)} run(s) ended with class {cls}, which is not a statement of {prop}; "
                  f"it is reported by the check of {'C06' if is_mem else 'the scenario own property'}")
    cfg["_foreign_events"] = foreign_events

    known = load_known()
    os.makedirs(REPLAYS, exist_ok=True)
    violations, known_hits, rc = [], [], 0
    for cls in sorted(byclass):
        reps = byclass[cls]
        rep = reps[0]
        plan = rep.get("plan")
        if not plan:
            plan = gen_plan(rep["variant"], rep["scn"], seed, int(rep["idx"]), tier)
        variant = rep["variant"]
        # gate: two fresh-process replays must agree with the original observation
        r1 = replay_once(variant, plan, leak=is_leak_prop)
        r2 = replay_once(variant, plan, leak=is_leak_prop)
        got1 = r1["leak"] if is_leak_prop else r1["cls"]
        got2 = r2["leak"] if is_leak_prop else r2["cls"]
        if got1 != cls or got2 != cls or r1["fp"] != r2["fp"]:
            print(f"NONDETERMINISTIC violation class={cls} replay1={got1} replay2={got2} fp1={r1['fp']} fp2={r2['fp']} idx={rep.get('idx')} variant={variant}")
            rc = max(rc, 2)
            continue
        kf = match_known(known, prop, cls)
        if kf:
            known_hits.append(dict(key=cls, count=len(reps), what=kf.get("what", "")))
            print(f"KNOWN-FINDING: property={prop} {cls} — {kf.get('what','')} ({len(reps)} runs)")
            continue
        # shrinking is bounded per check: many distinct classes usually share one root cause
        if len(violations) < 6:
            small, reruns = shrink(variant, plan, cls, is_leak_prop)
        else:
            small, reruns = plan, 0
        rs = replay_once(variant, small, leak=is_leak_prop)
        if (rs["leak"] if is_leak_prop else rs["cls"]) != cls:
            small, rs = plan, r1
        safe = re.sub(r"[^A-Za-z0-9_.-]+", "_", cls)[:80]
        path = os.path.join(REPLAYS, f"{prop}-{safe}-{rep.get('seed','0')}.plan")
        with open(path, "w") as f:
            f.write(f"# property {prop}\n# variant {variant}\n# class {cls}\n# leak {int(is_leak_prop)}\n")
            f.write(f"# detail {(rs.get('leakdetail') if is_leak_prop else rs.get('detail',''))[:300]}\n")
            f.write(f"# found by VERIF_SEED={seed} tier={tier} scenario={rep['scn']} index={rep.get('idx')} ; shrunk with {reruns} re-runs\n")
            f.write(small)
        violations.append(dict(key=cls, count=len(reps), replay=path, detail=(rs.get("leakdetail") if is_leak_prop else rs.get("detail", ""))[:300]))
        print(f"VIOLATION property={prop} replay={path}")
        print(f"  class={cls} runs={len(reps)} detail={violations[-1]['detail']}")
        rc = max(rc, 1)

    if nondet_pending:
        for n in nondet[:5]:
            print("NONDETERMINISTIC", n)
        if rc != 1:
            rc = 2
    # a violation that passed the gate (two identical fresh-process replays) is reported as such even if
    # other candidates of the same batch did not reproduce
    if violations:
        rc = 1
    write_evidence(prop, tier, seed, cfg, runs, violations, known_hits, explore_s, time.time() - t0, crashes=crashes,
                   note=("%d in-process re-executions did not reproduce" % len(nondet)) if nondet_pending else None)
    return rc


def write_evidence(prop, tier, seed, cfg, runs, violations, known_hits, explore_s, wall_s, note=None, crashes=()):
    os.makedirs(EVIDENCE, exist_ok=True)
    nt = {d["ntid"] for d in runs if d.get("nt") == "1" and d.get("twinfail") != "1"}
    il = {d["il"] for d in runs}
    fids = {d["fid"] for d in runs if d.get("fid") not in (None, "0000000000000000")}
    faults = {}
    for d in runs:
        fs = d.get("faults", "-")
        if fs == "-":
            continue
        for item in fs.split(","):
            k, v = item.split(":")
            c, f = v.split("/")
            e = faults.setdefault(k, dict(configured=0, fired=0))
            e["configured"] += int(c)
            e["fired"] += int(f)
    probes = {}
    pn = ["short_read", "short_write", "eagain_midrecord", "eagain_boundary", "send_blocked", "header_split",
          "record_16384", "clock_jump_during_handshake", "tls13_pad_gt0", "quiesced", "fault_fired",
          "one_byte_segments", "coalesced_read", "entropy_burst", "ephemeral_keys_validated", "tls13_key_schedule_validated"]
    for d in runs:
        for name, v in zip(pn, d.get("probes", "").split(",")):
            if v:
                probes[name] = probes.get(name, 0) + int(v)
    by_variant, by_cfg = {}, {}
    for d in runs:
        by_variant[d["variant"]] = by_variant.get(d["variant"], 0) + 1
        m = re.match(r"proto=(\w+) mutual=(\d) depth=(\d)", d.get("extra", ""))
        if m:
            k = f"{m.group(1)}/{'mutual' if m.group(2)=='1' else 'server-auth'}/depth{m.group(3)}"
            by_cfg[k] = by_cfg.get(k, 0) + 1
    cells = {}
    ck = cfg.get("cell_keys")
    if ck:
        for d in runs:
            if d.get("nt") != "1":
                continue
            ex = dict(KV.findall(d.get("extra", "")) and [(m.group(1), m.group(3) if m.group(3) is not None else m.group(2)) for m in KV.finditer(d.get("extra", ""))])
            key = "/".join(ex.get(k, "?") for k in ck)
            cells[key] = cells.get(key, 0) + 1
    # fraction of the enumerated single-fault coordinates that was hit (C10: flips over handshake payload bytes)
    space = None
    if cfg.get("space") == "hs_flip_bytes":
        hit, size = {}, {}
        for d in runs:
            if d.get("nt") != "1":
                continue
            ex = {m.group(1): (m.group(3) if m.group(3) is not None else m.group(2)) for m in KV.finditer(d.get("extra", ""))}
            if ex.get("kind") != "flip" or "hsbytes" not in ex:
                continue
            c = f"{ex.get('proto')}/{ex.get('mutual')}/{ex.get('depth')}"
            size[c] = max(size.get(c, 0), int(ex["hsbytes"]))
            hit.setdefault(c, set()).add((ex.get("dir"), ex.get("rec"), ex.get("off")))
        tot = sum(size.values())
        if tot:
            space = dict(measure="distinct (config, direction, record, byte offset) positions that received a bit flip / handshake payload bytes of the configs seen",
                         positions_hit=sum(len(v) for v in hit.values()), positions=tot,
                         fraction=round(sum(len(v) for v in hit.values()) / tot, 4))
    samples = []
    for d in runs[:3]:
        plan = gen_plan(d["variant"], d["scn"], seed, int(d["idx"]), tier)
        samples.append(dict(index=int(d["idx"]), variant=d["variant"], result="ok" if d.get("ok") == "1" else d.get("class"),
                            fingerprint=d.get("fp"), steps=int(d.get("steps", 0)),
                            plan=[l for l in plan.splitlines() if not l.endswith(" 0") or l.startswith("round") or l.startswith("fault")]))
    sim_s = sum(int(d.get("simns", 0)) for d in runs) / 1e9
    ev = dict(
        property_id=prop, tier=tier, seed=seed, level=cfg["level"],
        coverage=dict(
            evaluations=len(runs) + len(crashes),
            distinct_nontrivial=len(nt),
            rule=cfg["rule"],
            samples=samples or [dict(note="no run completed")],
            runs_per_hour=int(len(runs) / max(explore_s, 1e-9) * 3600),
            seeds=dict(verif_seed=seed, derivation="run seed = H(VERIF_SEED, scenario, index)", runs=len(runs)),
            sim_time_s=round(sim_s, 3),
            sim_steps=sum(int(d.get("steps", 0)) for d in runs),
            context_switches=sum(int(d.get("sw", 0)) for d in runs),
            faults=faults,
            distinct_interleavings=len(il),
            distinct_fault_ids=len(fids),
            probes=probes,
            probes_stuck_at_zero=[k for k in pn if probes.get(k, 0) == 0 and k in cfg.get("expect_probes", [])],
            runs_by_variant=by_variant,
            runs_by_config=by_cfg,
            space_covered=space,
            cells=dict(keys=ck, hit=len(cells), min_runs_in_a_cell=min(cells.values()) if cells else 0, counts=cells) if ck else None,
            twin_failed=sum(1 for d in runs if d.get("twinfail") == "1"),
            components=dict(
                real=["all of libgmssl.a built from /repo's working tree (TLS/TLCP/TLS1.3 handshake and record layer, X.509, SM2/SM3/SM4, ASN.1)"],
                stubbed=["libc send/recv/usleep/time/getentropy/close (link-time --wrap) and kernel TCP: simulated byte pipes",
                         "command-line tools (their main()s are not run; endpoints call the same public API)"]),
            known_findings=known_hits,
            violations=violations,
            events_of_other_properties=cfg.get("_foreign_events", []),
            exhaustive=False,
        ),
        assumptions=[
            "sampling, not enumeration: a clean batch is evidence, not proof",
            "assembly back-ends are not built; the portable C paths are what runs",
            "the simulated TCP is reliable and ordered; loss below TCP is out of scope",
        ],
        wall_s=round(wall_s, 2),
        violations=len(violations),
    )
    if note:
        ev["coverage"]["note"] = note
    tmp = os.path.join(EVIDENCE, prop + ".json.tmp")
    json.dump(ev, open(tmp, "w"), indent=1)
    os.replace(tmp, os.path.join(EVIDENCE, prop + ".json"))


def do_replay(path):
    txt = open(path).read()
    variant, leak, cls, prop = "plain", False, None, "?"
    for l in txt.splitlines():
        if l.startswith("# variant "): variant = l.split()[2]
        if l.startswith("# leak "): leak = l.split()[2] == "1"
        if l.startswith("# class "): cls = l.split(None, 2)[2]
        if l.startswith("# property "): prop = l.split()[2]
    B.build(variant)
    log = path + ".trace"
    r = replay_once(variant, txt, leak=leak, log=log)
    got = r["leak"] if leak else r["cls"]
    print(f"replay {path}: variant={variant} class={got} fp={r['fp']} detail={(r['leakdetail'] if leak else r['detail'])[:300]}")
    print(f"event trace: {log}")
    if got:
        print(f"VIOLATION property={prop} replay={path}")
        return 1
    return 0


def main():
    args = sys.argv[1:]
    if not args:
        print(__doc__)
        return 2
    if args[0] == "--setup":
        for v in ALL_VARIANTS:
            print("built", B.build(v))
        return 0
    if args[0] == "--replay":
        return do_replay(args[1])
    prop = args[0]
    tier = os.environ.get("VERIF_TIER", "quick")
    if "--tier" in args:
        tier = args[args.index("--tier") + 1]
    seed = int(os.environ.get("VERIF_SEED", "1"))
    if prop not in PROPS:
        print("unknown property", prop)
        return 2
    return run_check(prop, tier, seed)


if __name__ == "__main__":
    sys.exit(main())
