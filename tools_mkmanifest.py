import json
NA = {
 "C01":"pure function of (key, id, message, nonce): no schedule, clock, I/O, fault or second party for a simulator to control; the nonce's entropy behaviour is decided under C18 (DESIGN.md section 5)",
 "C02":"pure function of its inputs (encrypt/decrypt/ECDH); nothing to simulate (DESIGN.md section 5)",
 "C03":"digest/MAC/KDF of a message under a partition into update calls: a chunking is an input, not a schedule; the library does no I/O here (DESIGN.md section 5)",
 "C04":"ciphers and modes are pure functions of key/iv/input (DESIGN.md section 5)",
 "C05":"accept/reject is a pure function of (key, nonce, aad, ciphertext, tag); the live-connection part is decided under C11 (DESIGN.md section 5)",
 "C07":"predicate over (chain, trust store, depth, now); its only environmental input, the clock, is exercised in vivo by the C09 simulation (DESIGN.md section 5)",
 "C12":"each import path is a pure function of the bytes given (DESIGN.md section 5)",
 "C13":"bignum/curve arithmetic is a pure function (DESIGN.md section 5)",
 "C14":"codecs are pure functions; no state survives a call (DESIGN.md section 5)",
 "C15":"issue/parse/verify of certificates, requests and CRLs are pure functions of their arguments (DESIGN.md section 5)",
 "C16":"CMS round-trip/tamper is a pure function of its arguments (DESIGN.md section 5)",
 "C17":"SM9 operations are pure functions of their arguments (entropy behaviour is covered by C18) (DESIGN.md section 5)",
}
PENDING = {
}
import sys
checks = json.load(open('/verif/manifest_checks.json'))
claimed = {c["property_id"] for c in checks}
na = [dict(property_id=k, reason=v) for k,v in sorted(NA.items())]
for k,v in sorted(PENDING.items()):
    if k not in claimed: na.append(dict(property_id=k, reason=v))
for pid in ["C06","C08","C09","C10","C11","C18","C19","C20"]:
    if pid not in claimed and pid not in PENDING:
        na.append(dict(property_id=pid, reason="simulation target per DESIGN.md section 4, but its check is not built yet in this commit; not claimed until it is"))
na.sort(key=lambda d:d["property_id"])
m = dict(
 version=1,
 setup_cmd="python3 check.py --setup",
 hooks=dict(guard="GMSSL_VERIF", enable="none needed, no source change in /repo: every seam is a symbol taken over at link time with -Wl,--wrap (libc: send recv usleep time getentropy close socket connect gethostbyname, the non-reentrant ctime/asctime/localtime/gmtime/strtok/rand/srand, the process-wide signal/sigaction/setenv/unsetenv/putenv/setlocale/umask/chdir; libgmssl: sm2_sign_finish for the junk-signature prover) or a compiler flag when libgmssl.a is rebuilt from /repo's working tree by cmake into /verif/build/<variant>/lib (-Dmalloc=gmsim_lib_malloc for the allocator seam, -finstrument-functions for preemption points, sanitizers)",
            baseline_off_cmd="cmake --build /repo/_build -j16 && ctest --test-dir /repo/_build -j8 --timeout 900",
            source_commits=[], add_only=True),
 engines=[dict(name="gmsim", path="sim/", serves_properties=sorted(claimed),
               kind_free_text="deterministic simulator in C: seeded cooperative scheduler (ucontext fibers; pthreads+futex baton in the TSan build), simulated clock, simulated TCP pipes with record-aware fault interposer, seeded per-node entropy, stdout/stderr capture; driven by check.py (fan-out, violation gate, shrinking, evidence)")],
 checks=checks,
 not_applicable=na,
 notes="One technique only: deterministic simulation with fault injection. Properties whose truth is a pure function of argument bytes are listed as not_applicable rather than decided by another technique. Replay: python3 check.py --replay <file>.",
)
json.dump(m, open('/verif/MANIFEST.json','w'), indent=1)
print("claimed", sorted(claimed), "na", [d["property_id"] for d in na])
