#!/bin/bash
# confirm_mutant.sh <worktree> <MUTANT dir name> : re-verify an independently written breaking change
# 1. demo passes on the clean tree  2. change applies, library builds, test suite passes  3. demo fails with the change
WT=$1; M=$2
cd "$WT" || exit 2
git checkout -q -- . 
[ -d _build ] || cmake -G Ninja -B _build -DCMAKE_BUILD_TYPE=RelWithDebInfo >/dev/null
cmake --build _build -j16 >/dev/null 2>&1 || { echo "clean build failed"; exit 2; }
( cd "$M" && timeout 300 bash ./build_and_run.sh >/tmp/confirm_clean.log 2>&1 ); rc_clean=$?
git apply "$M/patch.diff" || { echo "patch does not apply"; exit 2; }
cmake --build _build -j16 >/tmp/confirm_build.log 2>&1 || { echo "build with change failed"; git checkout -q -- .; exit 2; }
ctest --test-dir _build -j8 --timeout 900 >/tmp/confirm_ctest.log 2>&1
failed=$(grep -E "^\s+[0-9]+ - " /tmp/confirm_ctest.log | awk '{print $3}' | sort | tr '\n' ' ')
( cd "$M" && timeout 300 bash ./build_and_run.sh >/tmp/confirm_mut.log 2>&1 ); rc_mut=$?
git checkout -q -- .
cmake --build _build -j16 >/dev/null 2>&1
echo "demo_clean_rc=$rc_clean demo_mutant_rc=$rc_mut suite_failed=[$failed]"
