#!/usr/bin/env python3
"""keep_mutant.py <worktree> <MUTANT dir> <id> <property> "<needs>" "<confirm line>" : copy a confirmed seeded change into /verif/seeded/<id>/"""
import sys, os, shutil, json
wt, m, mid, prop, needs, confirm = sys.argv[1:7]
src = os.path.join(wt, m)
dst = os.path.join('/verif/seeded', mid)
os.makedirs(dst, exist_ok=True)
for f in os.listdir(src):
    p = os.path.join(src, f)
    if os.path.isfile(p) and os.path.getsize(p) < 400000 and not f.endswith(('.o', '.so', '.a')) and not os.access(p, os.X_OK) or f.endswith('.sh'):
        shutil.copy(p, os.path.join(dst, f))
meta = dict(property=prop, source="independent sub-agent given only the property text and a scratch worktree",
            needs=needs, confirmed=confirm,
            ran="confirm_mutant.sh: demo on clean tree (exit 0), git apply patch.diff, cmake --build, ctest (only the 3 *_commands tests that fail on the clean tree fail), demo with the change (non-zero exit), git checkout")
json.dump(meta, open(os.path.join(dst, 'meta.json'), 'w'), indent=1)
print("kept", dst, os.listdir(dst))
