#!/usr/bin/env python3
"""Sensitivity test of the checks: apply each independently written breaking
change in /verif/seeded/<id>/patch.diff to /repo, run the quick check of the
property it breaks (and optionally other checks), record whether a VIOLATION
is reported, and undo the change again.  Afterwards the clean tree is checked
to be silent.

  python3 selftest.py                 all seeded changes
  python3 selftest.py <id> [...]      selected ones
Results: /verif/seeded/RESULTS.json (+ one line per change on stdout).
"""
import os, sys, json, subprocess, time, glob, re

VERIF = os.path.dirname(os.path.abspath(__file__))
REPO = "/repo"
SEEDED = os.environ.get("SELFTEST_DIR", os.path.join(VERIF, "seeded"))


def sh(cmd, **kw):
    return subprocess.run(cmd, shell=True, stdout=subprocess.PIPE, stderr=subprocess.STDOUT, text=True, **kw)


def clean_repo():
    r = sh(f"git -C {REPO} status --porcelain -- src include")
    return r.stdout.strip() == ""


def run_check(prop, budget):
    env = dict(os.environ)
    if budget:
        env["GMSIM_BUDGET_S"] = str(budget)
    t0 = time.time()
    r = subprocess.run(["python3", os.path.join(VERIF, "check.py"), prop, "--tier", "quick"],
                       stdout=subprocess.PIPE, stderr=subprocess.STDOUT, text=True, env=env, cwd=VERIF)
    classes = re.findall(r"^  class=(\S+)", r.stdout, re.M)
    notes = re.findall(r"^NOTE: .*?class (\S+),", r.stdout, re.M)
    return dict(rc=r.returncode, violations=classes, notes=notes, wall=round(time.time() - t0, 1),
                tail=r.stdout[-600:] if r.returncode not in (0, 1) else "")


def main():
    ids = sys.argv[1:] or sorted(d for d in os.listdir(SEEDED) if os.path.isdir(os.path.join(SEEDED, d)))
    budget = os.environ.get("SELFTEST_BUDGET_S", "45")
    if not clean_repo():
        print("refusing: /repo has uncommitted changes under src/ or include/")
        return 2
    results = {}
    rpath = os.path.join(SEEDED, "RESULTS.json")
    if os.path.exists(rpath):
        results = json.load(open(rpath))
    for mid in ids:
        d = os.path.join(SEEDED, mid)
        meta = json.load(open(os.path.join(d, "meta.json")))
        patch = os.path.join(d, "patch.diff")
        r = sh(f"git -C {REPO} apply --check {patch}")
        if r.returncode != 0:
            print(f"{mid}: patch does not apply: {r.stdout.strip()[:200]}")
            results[mid] = dict(error="patch does not apply")
            continue
        sh(f"git -C {REPO} apply {patch}")
        try:
            res = {}
            for prop in [meta["property"]] + meta.get("also_run", []):
                res[prop] = run_check(prop, budget)
        finally:
            sh(f"git -C {REPO} checkout -- .")
        own = res[meta["property"]]
        caught_by = [p for p, v in res.items() if v["rc"] == 1]
        noted_by = [p for p, v in res.items() if v["notes"]]
        results[mid] = dict(property=meta["property"], caught=bool(caught_by), caught_by=caught_by,
                            classes={p: v["violations"] for p, v in res.items()}, notes={p: v["notes"] for p, v in res.items() if v["notes"]},
                            rc={p: v["rc"] for p, v in res.items()}, wall={p: v["wall"] for p, v in res.items()})
        print(f"{mid}: property={meta['property']} caught={bool(caught_by)} by={caught_by} classes={own['violations'][:3]} rc={own['rc']} notes={noted_by}")
        json.dump(results, open(rpath, "w"), indent=1)
    assert clean_repo()
    return 0


if __name__ == "__main__":
    sys.exit(main())
